"""C22 - InfluxQL SELECT results match the language semantics.  Spec: InfluxQL.tla (reference evaluator in TLA+).

TLC -simulate is generator AND evaluator: every generated state carries (dataset, abstract query, expected rows) with
expected rows = Eval(data, q) of the specification; language-level laws of the evaluator are checked by TLC as
invariants during the simulation.  Replay: the dataset is written into a real two-shard tsdb.Store, the query is
rendered as InfluxQL text and executed through query.Select + coordinator.LocalShardMapper; rows are compared."""
import json
import vlib

# one TLC simulation chunk = WORKERS x NUM behaviours of DEPTH states (3 states per case); chunks are repeated with
# different seeds until TARGET pairs exist or the time budget is used (the thorough tier takes what fits)
CHUNK = {'quick': dict(workers=3, num=5, depth=61), 'thorough': dict(workers=8, num=10, depth=121)}
TARGET = {'quick': 300, 'thorough': 20000}
BUDGET_S = {'quick': 240, 'thorough': 1200}


def run(ctx):
    import time
    tier = ctx.tier
    ck = CHUNK[tier]
    behaviours = []
    t0 = time.time()
    nchunks = 0
    have = 0
    while have < TARGET[tier] and (nchunks == 0 or time.time() - t0 < BUDGET_S[tier]):
        r = ctx.tlc('InfluxQL', f'InfluxQL.Sim_{tier}.cfg', simulate={'num': ck['num'], 'seed': ctx.seed * 1000 + nchunks},
                    depth=ck['depth'], workers=min(ck['workers'], vlib.NCPU), timeout=900, tag=f'sim{nchunks}')
        if r.timed_out:
            raise vlib.Inconclusive('TLC simulation timed out')
        if not r.ok:
            # a law of the evaluator broken on the model: the reference semantics is inconsistent -> no verdict on the code
            raise vlib.Inconclusive(f'TLC reported {r.violated or "an error"} in the reference evaluator:\n' + r.stdout[-1500:])
        for beh in ctx.sim_behaviours(r):
            behaviours.append(beh)
            have += sum(1 for st in beh if st.get('phase') == 'p1' and st.get('n', 0) > 0)
        nchunks += 1
    ctx.extra_cov['simulation_chunks'] = nchunks
    # a focused stratum: GROUP BY time(w), host with fill over multi-series results (rare in the general mix)
    fnum = 2 if tier == 'quick' else 12
    r = ctx.tlc('InfluxQL', f'InfluxQL.Focus_{tier}.cfg', simulate={'num': fnum, 'seed': ctx.seed * 1000 + 777},
                depth=ck['depth'], workers=min(ck['workers'], vlib.NCPU), timeout=900, tag='focus')
    if r.timed_out or not r.ok:
        raise vlib.Inconclusive('TLC focus simulation failed: ' + r.stdout[-1500:])
    behaviours += list(ctx.sim_behaviours(r))
    cases = []
    npairs = 0
    kinds = {}
    for beh in behaviours:
        cur = None
        for st in beh:
            if st.get('phase') != 'p1' or st.get('n', 0) == 0:
                continue
            data = [{'host': s['host'], 'pts': s['pts']} for s in st['data']]
            exp = [{'host': e[0], 'rows': e[1]} for e in st['exp']]
            if cur is None or cur['data'] != data:
                cur = {'data': data, 'queries': []}
                cases.append(cur)
            cur['queries'].append({'q': st['q'], 'exp': exp})
            npairs += 1
            q = st['q']
            for k in (q['sel'], 'two-calls' if q['sel2'] != 'none' else None, 'w>0' if q['w'] else 'w=0', 'fill:' + q['fill'] if q['w'] else None,
                      'gtag' if q['gtag'] else None, 'desc' if q['desc'] else None, 'limit' if q['limit'] or q['offset'] else None,
                      'slimit' if q['slimit'] else None, 'tag:' + q['tagop'], 'field:' + q['fop'],
                      'off' if q['off'] else None, 'rows>0' if exp else 'rows=0'):
                if k:
                    kinds[k] = kinds.get(k, 0) + 1
    if not cases:
        raise vlib.Inconclusive('simulation produced no cases')
    cases = [c for c in cases if c['data']]      # an empty dataset cannot be queried (measurement does not exist)
    binary = ctx.go_build('iql')
    res, lines = ctx.replay(binary, cases, procs=min(vlib.NCPU, 12), timeout=1500)
    ctx.absorb(res, lines)
    layouts = {}
    for x in res:
        lay = (x.get('extra') or {}).get('layout')
        if lay is not None:
            layouts[str(lay)] = layouts.get(str(lay), 0) + 1
    ctx.extra_cov['datasets_per_storage_layout'] = layouts
    ctx.extra_cov['query_dataset_pairs'] = npairs
    ctx.extra_cov['datasets'] = len(cases)
    ctx.extra_cov['query_feature_counts'] = kinds
    ctx.rule = ('each TLC-simulated (dataset, query) pair is executed on a real two-shard store; a replay case = one dataset '
                'with its queries; non-trivial = dataset with >= 2 points and at least one query returning rows, distinct by '
                '(dataset, set of such queries)')
    ctx.assumptions += [
        'claimed subset: SELECT v | f(v) | f(v), g(v) with f, g in count|sum|mean|min|max|first|last FROM m WHERE time >= a AND time < b AND host =|!= x AND '
        'v <cmp> k GROUP BY time(w[,off])[, host] fill(null|none|previous|<n>) ORDER BY time DESC LIMIT/OFFSET SLIMIT/SOFFSET; one '
        'integer field, one tag, <= 3 series x <= 6 points, two shards',
        'the order of raw rows of different series at the same timestamp is not defined: compared as multisets, and LIMIT/OFFSET '
        'are not generated when they could cut through such a group',
        'first()/last() over points of different series that share the selected (earliest/latest) timestamp with different values is '
        'not defined by the language (without GROUP BY time the engine takes the first point of an unordered merge with LIMIT 1): such '
        'queries are generated only with GROUP BY host; min()/max() are defined on ties (earliest time among equal values)',
        'GROUP BY time is generated only with both time bounds (an open upper bound is now()); OFFSET only together with LIMIT and '
        'SOFFSET only together with SLIMIT (both requirements are documented; without them results are documented as inconsistent)',
        'SLIMIT/SOFFSET count the series of the measurement that satisfy the tag predicate (ascending), with or without rows',
        'count() reports 0 for an empty window under fill(null); fill(previous) follows output order',
        'storage layout is a concretisation chosen per dataset from the seed: all in cache / all in one TSM file per shard / older '
        'values in TSM overwritten at the same timestamps in the cache / the same with the overwrites flushed (two overlapping TSM '
        'files) / older values of part of the points in TSM and every point in the cache; the specification\'s dataset is the '
        'last-write-wins content',
        'mean() is merged by the code from per-series/per-shard partial means weighted by their counts, not computed as one '
        'division: it is compared with relative tolerance 1e-12 against the exact rational sum/count; all other values exactly',
    ]


META = {
    'level': 'model_checking',
    'text': 'A reference evaluator for the InfluxQL SELECT subset (raw field, count/sum/mean/min/max/first/last; WHERE on time, '
            'one tag and the field; GROUP BY time(w, off) and tag; fill null/none/previous/number; ORDER BY time DESC; '
            'LIMIT/OFFSET/SLIMIT/SOFFSET) is written in TLA+; TLC simulates (dataset, query) pairs, evaluates them with the '
            'specification, checks language laws on the evaluator, and every pair is executed on a real two-shard tsdb.Store '
            'through query.Select and coordinator.LocalShardMapper; the rows must be equal.',
    'design_ref': '5.14',
    'note': 'Trusted: TLC, the query renderer and row comparison of the driver. Randomised (TLC -simulate), not exhaustive.',
    'technique': 'TLA+ reference evaluator (InfluxQL.tla) + TLC simulation + replay on a real tsdb.Store',
    'quick_s': 120, 'thorough_s': 1500,
}
