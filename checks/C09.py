"""C09 — tsm1.Cache behaves as a size-bounded newest-wins map under concurrency.  Spec: Cache.tla (+ TraceCache.tla).

1. TLC checks the design (WriteMulti as load/check/capture/reserve and, per key, lookup/add; Snapshot and ClearSnapshot in their
   halves, DeleteRange per key as size/filter/remove+refund, Values in its two halves) for 2-3 writers + snapshotter + deleter + reader: ValuesContract, SizeAccounting, EntriesTyped,
   RejectedStoresNothing, TypeConflictOneKey, WriteOutcomeStep, LimitStep; coverage guard on every action.
2. Three *lead* configs let TLC show that the strict contract Size() = accounted bytes fails on the model of the code (reader dedup
   without refund: F8; a write that spans a Snapshot swap: F23; a store.write racing with DeleteRange on its entry: F24); they are
   reproduced on the real cache (sequential replay rediscovers F8; the `span` case forces F23; the `orphan` case searches for F24
   within a time budget) and reported as known findings, never believed from the model alone.
3. Sequential replay (spec -> code): every maximal history of the VIEW-reduced sequential state space plus random deep TLC
   behaviours with rich batches are executed on a real tsm1.Cache; WriteMulti errors, Size() and Keys() are compared after every
   step, Values() where the history reads and for every key at the end.
4. Trace validation (code -> spec): N goroutines of random WriteMulti/Values/Size/Snapshot+ClearSnapshot/DeleteRange on one real Cache
   per trace; call/ret ndjson lines; TraceCache.tla must find a linearization with exactly the logged results and the invariants of
   Cache.tla hold in every state of every trace; at the quiescent end of each trace Size() must equal the accounted bytes."""
import json
import os
import re
import subprocess
import sys

import vlib
import tlaval

PAT_F8 = 'size_drift_after_dedup'
PAT_SPAN = 'write_spans_snapshot_swap'
PAT_ORPHAN = 'write_races_delete_range_entry'

SEQ = dict(
    quick=dict(gen='Cache.Gen_quick.cfg', maxops=3, replay_budget=6000, sim=60, simw=2, depth=70, limit=60, concs=1),
    thorough=dict(gen='Cache.Gen_thorough.cfg', maxops=3, replay_budget=60000, sim=300, simw=8, depth=90, limit=60, concs=3),
)
TRACES = dict(
    quick=dict(traces=30, chunk=30, threads=3, ops=4, par=1),
    thorough=dict(traces=1000, chunk=100, threads=3, ops=4, par=6),   # <= 16 operations per trace (+ the clears)
)
TRACE_LIMIT = 90   # must equal Limit in TraceCache.cfg

SIM_CFG = '''SPECIFICATION Spec
CONSTANTS
  Keys = {"k1", "k2", "k3"}
  Times = {0, 1, 2}
  Types = {"n", "b", "s"}
  Threads = {"t1"}
  Writers = {"t1"}
  Snappers = {"t1"}
  Deleters = {"t1"}
  Readers = {"t1"}
  Limit = 260
  Sequential = TRUE
  SplitLoads = FALSE
  Fused = TRUE
  BKeys = {"k1", "k2", "k3"}
  PerWriter = 99
  RandomPick = TRUE
  Rich = TRUE
  MaxWrites = 99
  MaxSnaps = 99
  MaxDeletes = 99
  MaxReads = 99
  MaxSizes = 0
  MaxOps = 14
INVARIANTS ValuesContract SizeAccounting EntriesTyped WriteOutcome LimitAsObserved
CHECK_DEADLOCK FALSE
'''


def final_histories(dump_path, maxops):
    """Stream a TLC dump; yield hist of the states in which the (single) thread is idle and the op budget is used up.
    Cheap textual pre-filter, only `hist` of selected states is parsed."""
    want_ops = re.compile(r'ops \|-> %d\b' % maxops)
    buf = []

    def flush():
        body = ''.join(buf)
        if not body.strip():
            return None
        if not want_ops.search(body):
            return None
        m = re.search(r'(?:^|\n)/\\ th = (.*?)(?=\n/\\ [a-zA-Z]+ = |\Z)', body, re.S)
        if not m or 'pc |-> "idle"' not in m.group(1) or 'pc |-> "' in m.group(1).replace('pc |-> "idle"', ''):
            return None
        m = re.search(r'(?:^|\n)/\\ hist = (.*?)(?=\n/\\ [a-zA-Z]+ = |\Z)', body, re.S)
        if not m:
            return None
        return tlaval.plain(tlaval.parse_value(m.group(1)))

    with open(dump_path) as f:
        for line in f:
            if line.startswith('State ') and line.rstrip().endswith(':'):
                h = flush()
                if h:
                    yield h
                buf = []
            else:
                buf.append(line)
    h = flush()
    if h:
        yield h


def sim_histories(ctx, res):
    """Last state of every simulated behaviour carries the whole history."""
    import glob
    for f in sorted(glob.glob(os.path.join(res.sim_dir, 'b_*'))):
        text = open(f).read()
        blocks = re.split(r'\n(?=STATE_\d+ ==)', text)
        best = None
        for blk in reversed(blocks):
            m = re.search(r'(?:^|\n)/\\ hist = (.*?)(?=\n/\\ [a-zA-Z]+ = |\Z)', blk, re.S)
            if m:
                best = m.group(1)
                break
        if best is None:
            continue
        try:
            h = tlaval.plain(tlaval.parse_value(best))
        except Exception as e:
            raise vlib.Inconclusive(f'cannot parse simulate file {f}: {e}')
        if h:
            yield h


def split_traces(path):
    """-> list of (first_line_no (1-based), [lines]) per trace (each ends with its reset line)."""
    out, cur, start = [], [], 1
    with open(path) as f:
        for i, ln in enumerate(f, 1):
            cur.append(ln)
            if '"ev":"reset"' in ln:
                out.append((start, cur))
                cur, start = [], i + 1
    if cur:
        out.append((start, cur))
    return out


def record(ctx, binary, seed, traces, threads, ops, out):
    cmd = [binary, 'record', '-seed', str(seed), '-traces', str(traces), '-ops', str(ops), '-threads', str(threads),
           '-limit', str(TRACE_LIMIT), '-out', out]
    p = subprocess.run(cmd, env=vlib.go_env(), stdout=subprocess.PIPE, stderr=subprocess.STDOUT, text=True, timeout=600)
    if p.returncode != 0:
        raise vlib.Inconclusive('recorder failed: ' + p.stdout[-2000:])


def validate(ctx, trace_path, tag):
    """ctx.validate_trace with an explicit tag (own scratch copy of spec/), so that chunks can be validated concurrently."""
    r = ctx.tlc('TraceCache', 'TraceCache.cfg', workers=1, timeout=2400, extra_files={'trace.ndjson': trace_path}, dfs=True,
                tag='trace-' + tag, heap='3g', count=False)
    if r.timed_out:
        raise vlib.Inconclusive('trace validation timed out')
    if not r.ok and not r.violated and 'Error' in r.stdout and 'postcondition' not in r.stdout.lower():
        tail = '\n'.join(r.stdout.splitlines()[-40:])
        raise vlib.Inconclusive(f'trace validation failed to run:\n{tail}')
    m = re.search(r'@@HW (\d+) of (\d+)', r.stdout)
    r.hw = (int(m.group(1)), int(m.group(2))) if m else None
    return r.ok, r


def validate_chunk(ctx, path, tag, stats):
    """Validate one file of concatenated traces; on rejection attribute it to the trace containing the high-water mark,
    report that trace and continue with the traces after it."""
    traces = split_traces(path)
    pos = 0
    rounds = 0
    while pos < len(traces):
        rounds += 1
        if rounds > 6:
            ctx.infra.append('trace validation: more than 5 rejected traces in one chunk, giving up on the rest')
            return
        sub = ctx.tmp(f'{tag}-r{rounds}.ndjson')
        with open(sub, 'w') as f:
            for _, lines in traces[pos:]:
                f.writelines(lines)
        ok, r = validate(ctx, sub, f'{tag}-r{rounds}')
        stats['tlc_trace_states'] += r.distinct
        stats['tlc_trace_generated'] = stats.get('tlc_trace_generated', 0) + r.generated
        # explanations of the quiescent end of each trace: (kind, drift, lost, strayed, glitched)
        expl = {}
        for m in re.finditer(r'<<"@@EXACT", (\d+), (TRUE|FALSE), (TRUE|FALSE)>>', r.stdout):
            expl.setdefault(int(m.group(1)), set()).add(('exact', 0, 0, m.group(2) == 'TRUE', m.group(3) == 'TRUE'))
        for m in re.finditer(r'<<"@@LEAK", (\d+), (-?\d+), (-?\d+), (TRUE|FALSE), (TRUE|FALSE)>>', r.stdout):
            expl.setdefault(int(m.group(1)), set()).add(('leak', int(m.group(2)), int(m.group(3)), m.group(4) == 'TRUE',
                                                         m.group(5) == 'TRUE'))
        if ok:
            upto = len(traces)
        else:
            if r.violated and r.violated != 'postcondition' and 'Postcondition' not in r.stdout:
                # an invariant of Cache.tla failed on a state of a real trace
                hw = None
            else:
                hw = r.hw[0] if getattr(r, 'hw', None) else None
            # which trace holds line hw (relative to sub file)?
            upto = pos
            acc = 0
            bad = None
            for j in range(pos, len(traces)):
                n = len(traces[j][1])
                if hw is not None and acc < max(hw, 1) <= acc + n:
                    bad = j
                    break
                acc += n
            if bad is None:
                tail = '\n'.join(r.stdout.splitlines()[-30:])
                raise vlib.Inconclusive(f'trace validation failed without a usable high-water mark (violated={r.violated}):\n{tail}')
            upto = bad
        # traces pos..upto-1 were fully explained
        for j in range(pos, upto):
            tr = json.loads(traces[j][1][0])['tr']
            ctx.traces_validated += 1
            stats['traces_accepted'] += 1
            nops = sum(1 for ln in traces[j][1] if '"ev":"call"' in ln)
            stats['trace_ops'] += nops
            overl = overlapping(traces[j][1])
            if overl:
                ctx.nontrivial_sigs.add(f'trace:{tag}:{tr}')
                stats['traces_with_overlap'] += 1
            ex = sorted(expl.get(tr, ()))
            clean = any(k == 'exact' and not st and not gl for k, d, lo, st, gl in ex)
            if ex and not clean:
                # no linearization explains the trace without one of the named deviations of Cache.tla.  SizeAccounting holds in
                # every state of the trace, so every explanation is: pure reader-dedup drift (F8), or needs a write that spans a
                # Snapshot swap (strayed), or a store.write that raced with DeleteRange on its entry (glitched).
                if any(k == 'leak' and not st and not gl and d == lo and lo > 0 for k, d, lo, st, gl in ex):
                    pats = [PAT_F8]
                else:
                    pats = sorted(set(([PAT_SPAN] if any(st for k, d, lo, st, gl in ex) else []) +
                                      ([PAT_ORPHAN] if any(gl for k, d, lo, st, gl in ex) else [])))
                    if any(k == 'leak' and not st and not gl for k, d, lo, st, gl in ex):
                        pats = []      # a drift nothing accounts for (cannot happen while SizeAccounting is checked)
                e0 = ex[0]
                ctx.divergences.append({'case': {'mode': 'trace', 'lines': [json.loads(x) for x in traces[j][1]]},
                                        'result': {'step': len(traces[j][1]) - 2, 'patterns': pats,
                                                   'msg': 'every linearization that explains the trace needs a named deviation: '
                                                          + '; '.join(f'{k}: Size()-accounted={d}, reader-dedup bytes={lo}, write spans '
                                                                      f'snapshot swap={st}, write raced DeleteRange on its entry={gl}'
                                                                      for k, d, lo, st, gl in ex[:4])}})
            if len(ctx.samples) < 3:
                ctx.samples.append({'mode': 'trace', 'lines': [json.loads(x) for x in traces[j][1]][:40]})
        if ok:
            return
        # trace `upto` was rejected
        bad_lines = [json.loads(x) for x in traces[upto][1]]
        rel = (r.hw[0] if r.hw else 0) - sum(len(traces[j][1]) for j in range(pos, upto))
        ctx.traces_validated += 1
        ctx.divergences.append({'case': {'mode': 'trace', 'lines': bad_lines},
                                'result': {'step': rel, 'patterns': [],
                                           'msg': f'no linearization of Cache.tla explains the recorded trace: its line {rel} cannot be '
                                                  f'consumed ({json.dumps(bad_lines[rel - 1]) if 1 <= rel <= len(bad_lines) else "?"})'}})
        pos = upto + 1


def overlapping(lines):
    """True iff two operations of different threads overlap in the trace (a call between another thread's call and ret)."""
    open_ = set()
    for ln in lines:
        e = json.loads(ln)
        if e['ev'] == 'call':
            if open_:
                return True
            open_.add(e['t'])
        elif e['ev'] == 'ret':
            open_.discard(e['t'])
    return False


def run_stored_case(ctx):
    """./check C09 --replay <path>: re-run exactly one stored failing case against the current tree."""
    with open(ctx.replay_path) as f:
        case = json.load(f)['case']
    ctx.states = ctx.transitions = 1
    binary = ctx.go_build('cache')
    ctx.rule = 'replay of one stored case'
    if case.get('mode') == 'trace':
        # a recorded trace cannot be re-executed (free-running goroutines); it is re-validated against the current spec
        path = ctx.tmp('stored-trace.ndjson')
        with open(path, 'w') as f:
            for ln in case['lines']:
                f.write(json.dumps(ln, separators=(',', ':')) + '\n')
        stats = {'traces_accepted': 0, 'trace_ops': 0, 'traces_with_overlap': 0, 'tlc_trace_states': 0}
        validate_chunk(ctx, path, 'stored', stats)
        ctx.states = ctx.transitions = max(1, stats['tlc_trace_states'])
        ctx.samples.append({'mode': 'trace', 'lines': case['lines'][:40]})
        return
    res, lines = ctx.replay(binary, [case], procs=1)
    ctx.absorb(res, lines)


def run(ctx):
    if getattr(ctx, 'replay_path', None):
        return run_stored_case(ctx)
    import concurrent.futures
    import threading
    tier = ctx.tier
    sq, tc = SEQ[tier], TRACES[tier]
    ncpu = max(1, vlib.NCPU)             # the framework's CPU budget (/verif/.ncpu or VERIF_NCPU)
    big = max(1, min(ncpu // 2, 8)) if tier == 'quick' else max(1, min(ncpu, 16) // 2)

    # ---- 1.-3. TLC runs (concurrently; counters are added after the join): model checking of the concurrent design, the two
    #      leads (the strict contract fails on the model of the code; shortest counterexamples), generation of sequential
    #      histories (dump of the result-aware VIEW-reduced space + random deep behaviours), and the harness build
    def t_mc():
        return ctx.tlc('Cache', f'Cache.MC_{tier}.cfg', timeout=2400, coverage=True, workers=big, tag='mc', count=False)

    def t_lead1():
        return ctx.tlc('Cache', 'Cache.Lead_dedup.cfg', timeout=900, workers=1, tag='lead1', count=False)

    def t_lead2():
        return ctx.tlc('Cache', 'Cache.Lead_stray.cfg', timeout=900, workers=1, tag='lead2', count=False)

    def t_gen():
        return ctx.tlc('Cache', sq['gen'], timeout=2400, dump=True, workers=max(1, min(4, ncpu // 2)), tag='gen', count=False)

    def t_sim():
        return ctx.tlc('Cache', SIM_CFG, simulate={'num': sq['sim'] * sq['simw'] // min(sq['simw'], ncpu)}, depth=sq['depth'], timeout=1500, workers=min(sq['simw'], ncpu),
                       tag='sim', count=False)

    def t_mc3():
        return ctx.tlc('Cache', 'Cache.MC3_thorough.cfg', timeout=2400, coverage=True, workers=big, tag='mc3', count=False)

    def t_lead3():
        return ctx.tlc('Cache', 'Cache.Lead_orphan.cfg', timeout=900, workers=1, tag='lead3', count=False)

    runs = [('mc', t_mc), ('lead1', t_lead1), ('lead2', t_lead2), ('lead3', t_lead3), ('gen', t_gen), ('sim', t_sim)]
    if tier != 'quick':
        runs.append(('mc3', t_mc3))     # three writers on one key, <= 5 operations
    # at most three TLC processes (plus the go build) at a time
    with concurrent.futures.ThreadPoolExecutor(max_workers=4) as ex:
        futs = {n: ex.submit(f) for n, f in runs}
        fb = ex.submit(ctx.go_build, 'cache')
        R = {n: f.result() for n, f in futs.items()}
        binary = fb.result()
    for n in R:
        ctx.states += R[n].distinct
        ctx.transitions += R[n].generated
        if R[n].timed_out:
            raise vlib.Inconclusive(f'TLC run {n} timed out')
    r = R['mc']
    if not r.ok:
        raise vlib.Inconclusive(f'TLC did not pass on Cache.MC_{tier}.cfg: violated={r.violated}\n' + '\n'.join(r.stdout.splitlines()[-30:]))
    # (vlib's coverage regex does not match TLC's "<Name line .. of module M (l c l c)>: d:g" form used for actions with
    #  bound variables, so the counts are taken from stdout here)
    for m in re.finditer(r'<(\w+) line \d+, col \d+ to line \d+, col \d+ of module \w+(?: \([\d ]+\))?>: (\d+):(\d+)', r.stdout):
        r.coverage[m.group(1)] = max(r.coverage.get(m.group(1), 0), int(m.group(3)))
    ctx.check_coverage(r, ['DoStartWrite', 'DoStartSnapshot', 'DoStartClear', 'DoStartDelete', 'DoStartRead',
                           'IWCapture', 'IWReserve', 'IWLookup', 'IWAdd', 'IWSlow', 'ISZero', 'ICResetK', 'ICFinish',
                           'IDNext', 'IDFilter', 'IDCheck', 'IRCopy'])
    ctx.extra_cov['mc_action_coverage'] = {a: r.coverage.get(a, 0) for a in sorted(r.coverage) if a[:1] == 'I' or a[:2] == 'Do'}
    ctx.extra_cov['mc_states'] = r.distinct
    if 'mc3' in R:
        if not R['mc3'].ok:
            raise vlib.Inconclusive(f'TLC did not pass on Cache.MC3_thorough.cfg: violated={R["mc3"].violated}\n'
                                    + '\n'.join(R['mc3'].stdout.splitlines()[-30:]))
        ctx.extra_cov['mc3_states'] = R['mc3'].distinct
    lead, lead2 = R['lead1'], R['lead2']
    if lead.violated != 'StrictSizeNoStray':
        raise vlib.Inconclusive(f'lead run Lead_dedup: expected StrictSizeNoStray to fail on the model, got violated={lead.violated} ok={lead.ok}')
    if lead2.violated != 'StrictSizeNoDedup':
        raise vlib.Inconclusive(f'lead run Lead_stray: expected StrictSizeNoDedup to fail on the model, got violated={lead2.violated} ok={lead2.ok}')
    lead3 = R['lead3']
    if lead3.violated != 'StrictSizeNoDedupNoStray':
        raise vlib.Inconclusive(f'lead run Lead_orphan: expected StrictSizeNoDedupNoStray to fail on the model, got violated={lead3.violated} ok={lead3.ok}')
    ctx.extra_cov['lead_orphan_trace_len'] = len(lead3.trace)
    ctx.extra_cov['lead_dedup_trace_len'] = len(lead.trace)
    ctx.extra_cov['lead_stray_trace_len'] = len(lead2.trace)
    g, sim = R['gen'], R['sim']
    if not g.ok:
        raise vlib.Inconclusive(f'TLC did not pass on {sq["gen"]}: violated={g.violated}\n' + '\n'.join(g.stdout.splitlines()[-30:]))
    if not sim.ok:
        raise vlib.Inconclusive('simulation run failed: ' + sim.stdout[-1500:])

    # ---- 4. trace recording + validation runs in the background while the sequential histories are replayed
    stats = {'traces_accepted': 0, 'trace_ops': 0, 'traces_with_overlap': 0, 'tlc_trace_states': 0, 'tlc_trace_generated': 0}
    lock = threading.Lock()
    jobs = []
    left, k = tc['traces'], 0
    while left > 0:
        n = min(tc['chunk'], left)
        path = ctx.tmp(f'trace-{k}.ndjson')
        record(ctx, binary, ctx.seed * 1000 + k, n, tc['threads'], tc['ops'], path)
        jobs.append((path, f'c{k}'))
        left -= n
        k += 1
    errs = []

    def work(job):
        st = {'traces_accepted': 0, 'trace_ops': 0, 'traces_with_overlap': 0, 'tlc_trace_states': 0, 'tlc_trace_generated': 0}
        try:
            validate_chunk(ctx, job[0], job[1], st)
        except vlib.Inconclusive as e:
            errs.append(str(e))
        with lock:
            for a, b in st.items():
                stats[a] += b
    tex = concurrent.futures.ThreadPoolExecutor(max_workers=max(1, min(tc['par'], ncpu - 1)))
    tfuts = [tex.submit(work, j) for j in jobs]

    # ---- 3b. sequential replay
    cases = []
    for h in final_histories(g.dump_path, sq['maxops']):
        cases.append({'mode': 'seq', 'limit': sq['limit'], 'conc': 0, 'steps': h})
    try:
        os.remove(g.dump_path)
    except OSError:
        pass
    total_hist = len(cases)
    if total_hist == 0:
        raise vlib.Inconclusive('no sequential histories in the dump')
    chosen = vlib.sample_list(ctx.rng, cases, sq['replay_budget'])
    ctx.exhaustive = (len(chosen) == total_hist)
    simcases = [{'mode': 'seq', 'limit': 260, 'conc': 0, 'steps': h} for h in sim_histories(ctx, sim)]
    if not simcases:
        raise vlib.Inconclusive('no simulated behaviours')
    allcases = []
    for c in range(sq['concs']):
        for cs in chosen + simcases:
            allcases.append(dict(cs, conc=c))
    # the forced schedule of the Lead_stray counterexample (a write that spans Snapshot + ClearSnapshot)
    allcases.append({'mode': 'span', 'nkeys': 100000})
    # bounded search (ms) for the schedule of the Lead_orphan counterexample (write || DeleteRange on one entry)
    allcases.append({'mode': 'orphan', 'nkeys': 6000 if tier == 'quick' else 30000})
    # bounded search (ms): two concurrent first writes on a fresh / freed cache must both be stored and accounted (lazy store
    # allocation; found by trace validation, repaired in Cache.init/Free -- kept as a regression probe, any hit is a violation)
    allcases.append({'mode': 'firstwrites', 'nkeys': 4000 if tier == 'quick' else 20000})
    res, lines = ctx.replay(binary, allcases, timeout=1500)
    ctx.absorb(res, lines)
    span = res[-3]
    orphan = res[-2]
    ctx.extra_cov['first_writes_race_iterations'] = res[-1].get('evals')
    # the window is a few instructions wide: not hitting it within the budget is recorded, not an error (DESIGN section 10:
    # timing); the lead was confirmed on the real cache by this search (about 1 hit per 1.5e5 iterations) and by a recorded trace
    ctx.extra_cov['lead_orphan_reproduced_this_run'] = bool(not orphan.get('ok') and PAT_ORPHAN in (orphan.get('patterns') or []))
    ctx.extra_cov['lead_orphan_search_iterations'] = orphan.get('evals')
    if span.get('ok') and span.get('kind') != 'infra':
        ctx.infra.append('lead Lead_stray (write spanning a Snapshot swap leaves Size() > accounted) did not reproduce on the real '
                         'cache: the spec models a race the code no longer has (update Cache.tla)')
    n_f8 = sum(1 for x in res if not x.get('ok') and PAT_F8 in (x.get('patterns') or []))
    if n_f8 == 0:
        ctx.infra.append('lead Lead_dedup (reader dedup without refund) did not reproduce in any replayed history: Cache.tla models a '
                         'drift the code no longer has (update the spec)')
    steps = [s for cs in chosen + simcases for s in cs['steps']]
    n_limit = sum(1 for s in steps if s.get('err') == 'limit')
    n_conf = sum(1 for s in steps if s.get('err') == 'conflict')
    if n_limit == 0 or n_conf == 0:
        raise vlib.Inconclusive(f'vacuity guard: replayed histories contain {n_limit} limit rejections and {n_conf} type conflicts')
    ctx.extra_cov.update({'seq_histories_total': total_hist, 'seq_histories_replayed': len(chosen),
                          'seq_simulated_behaviours': len(simcases), 'concretisations': sq['concs'],
                          'seq_steps_with_limit_rejection': n_limit, 'seq_steps_with_type_conflict': n_conf,
                          'seq_cases_showing_F8': n_f8})

    # ---- 4b. join the trace validations
    for f in tfuts:
        f.result()
    tex.shutdown()
    if errs:
        raise vlib.Inconclusive(errs[0])
    if stats['traces_accepted'] == 0:
        raise vlib.Inconclusive('no trace was accepted')
    if stats['traces_with_overlap'] == 0:
        raise vlib.Inconclusive('vacuity guard: no recorded trace has overlapping operations')
    ctx.extra_cov.update(stats)
    ctx.states += stats['tlc_trace_states']
    ctx.transitions += stats['tlc_trace_generated']

    ctx.rule = ('sequential: a replayed TLC history (maximal history of the VIEW-reduced sequential state space of Cache.tla, or a '
                'random TLC behaviour of <= 14 operations with multi-value/unsorted/mixed-type batches over 3 keys x 3 timestamps x 3 '
                'value classes) is non-trivial if it contains a rejected or type-conflicting write or writes some (key, timestamp) '
                'more than once; concurrent: a recorded trace is non-trivial if operations of two goroutines overlap')
    ctx.assumptions += [
        'every key of a WriteMulti batch carries at least one value (the engine never writes empty value lists)',
        'ClearSnapshot is called only by the holder of a successful Snapshot (API protocol; otherwise the code dereferences nil)',
        'the entry pointers that Values holds between its lookup and its copy are not modelled (each half of Values is one step); '
        'store.write (lookup / add) and DeleteRange (size / filter / remove+refund per key) are modelled step by step',
        'the limit test is check-then-reserve as in the code: the rejection guarantee is relative to the Size() the write observed, '
        'and counts value bytes only (key bytes are added after the test)',
        'data races are not decided here (C39)',
    ]


META = {
    'level': 'model_checking',
    'text': 'TLC checks the cache design (multi-step WriteMulti/ClearSnapshot/Values against Snapshot and DeleteRange) for the read, '
            'size, limit and type-conflict contracts; every sequential history of the reduced state space and random deep behaviours are '
            'replayed on the real tsm1.Cache comparing WriteMulti errors, Size, Keys and Values; traces recorded from goroutines on a real '
            'Cache must be linearizable by the spec with exactly the logged results, and Size() must equal the accounted bytes when quiescent.',
    'design_ref': '5.5',
    'note': 'Trusted: TLC, the Json module, the 60-line abstract<->concrete mapping of the driver, the mutex-ordered trace log. '
            'Entry-level windows (F17) and data races are outside this check.',
    'technique': 'TLA+ spec (Cache.tla, TraceCache.tla) + TLC exhaustive/simulation + replay of TLC histories on the real cache + '
                 'trace validation of recorded concurrent runs',
    # measured only under a 20-40x overloaded machine (load average 100-600 on 16 cores): quick 543-911 s there; TLC state counts
    # (quick ~0.2M, thorough ~12M generated) put an idle machine at about 1 min / 10 min
    'quick_s': 60, 'thorough_s': 600,
}
