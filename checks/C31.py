"""C31 - resource ids round-trip through their text encoding and generated ids are unique, also under concurrency.
Spec: IDs.tla (SpecGen: the CAS loop of pkg/snowflake Generator.Next with 3 callers and a clock that stalls / steps back;
SpecCodec: the text codec over strings of character classes), IDsBase.tla (shared pure part), TraceIDs.tla.
Binding: (a) ids returned by the real generators to concurrent callers are decomposed into time/machine/sequence and
validated line by line by TraceIDs.tla (non-zero, machine field, each installed state a legal successor of the previous
one => pairwise distinct, per-caller program order); (b) every abstract codec string is concretised into seeded concrete
strings and replayed on platform.ID Decode/DecodeFromString/IDFromString/UnmarshalText/Encode/String."""
import json
import os
import vlib

GEN_ACTIONS = ['Tick', 'StepBack', 'ReadClock', 'LoadState', 'Cas', 'Fallback']


def run(ctx):
    tier = ctx.tier
    quick = tier == 'quick'
    # 1. generator design: AllDistinct, NonZero, PerCallerIncreasing, StateMonotone, SuccLegal
    r = ctx.tlc_must_pass('IDs', f'IDs.MC_{tier}.cfg', timeout=1700, coverage=True)
    ctx.check_coverage(r, GEN_ACTIONS)
    # model-level sensitivity: without the CAS the same model hands out duplicates (what the trace validation looks for)
    nocas = ctx.tlc('IDs', 'IDs.Lead_NoCAS.cfg', timeout=600, workers=4, count=False)
    if nocas.timed_out or nocas.violated not in ('AllDistinct', 'StateMonotone', 'SuccLegal', 'PerCallerIncreasing'):
        raise vlib.Inconclusive(f'IDs model without CAS should violate the contract, got {nocas.violated}')
    ctx.extra_cov['model_without_cas_violates'] = nocas.violated
    # 2. codec: every abstract string
    g = ctx.tlc_must_pass('IDs', f'IDs.Codec_{tier}.cfg', timeout=900, dump=True, workers=4)
    L = 3 if quick else 4
    cases = []
    for st in ctx.dump_states(g):
        cases.append({'mode': 'codec', 'str': st['str'], 'verdict': st['verdict'], 'L': L,
                      'nconc': 6 if quick else 40, 'conc': ctx.rng.randrange(10 ** 6)})
    # 2b. strings of the real length: canonical shapes with one position replaced by every class; the driver puts every
    #     byte value of that class there (16 positions x 256 byte values per shape and seed)
    gp = ctx.tlc_must_pass('IDs', 'IDs.CodecPoint.cfg', timeout=600, dump=True, workers=2)
    npoint = 0
    for st in ctx.dump_states(gp):
        cases.append({'mode': 'codec', 'point': True, 'str': st['str'], 'verdict': st['verdict'], 'L': 16,
                      'nconc': 1 if quick else 6, 'conc': ctx.rng.randrange(10 ** 6)})
        npoint += 1
    ctx.extra_cov['codec_point_states'] = npoint
    ctx.exhaustive = True
    binary = ctx.go_build('ids')
    res, lines = ctx.replay(binary, cases, timeout=1200, procs=min(vlib.NCPU, 4), env_extra={'GOMAXPROCS': '2'})
    ctx.absorb(res, lines)
    ctx.extra_cov['codec_abstract_strings'] = len(cases)
    ctx.extra_cov['codec_concrete_strings'] = sum(int(x.get('evals', 0) or 0) for x in res)
    # 3. generators under concurrency: record, then validate against the spec
    ntraces = 3 if quick else 8
    kinds = ['pkg', 'idgen', 'default']
    rec_cases = []
    paths = []
    for k in range(ntraces):
        gens = []
        for j in range(3 if quick else 5):
            sync = j % 2 == 0   # lock-step rounds (every caller enters Next() at the same moment) alternate with free-running callers
            gens.append({'kind': kinds[(k + j) % 3], 'machine': ctx.rng.choice([0, 1, 5, 511, 1022, 1023]),
                         'callers': ctx.rng.choice([3, 4]) if sync else ctx.rng.choice([2, 3, 4, 8]),
                         'calls': (ctx.rng.choice([300, 400]) if sync else ctx.rng.choice([150, 300, 450])) if quick
                                  else (ctx.rng.choice([800, 1500]) if sync else ctx.rng.choice([300, 600, 1200])),
                         'pause': ctx.rng.random() < 0.5, 'sync': sync})
        if k == ntraces - 1:
            # bulk trace: free-running callers, many calls (real contention on the CAS), summarised per time value
            gens = [{'kind': kinds[j % 3], 'machine': ctx.rng.choice([0, 1, 5, 511, 1022, 1023]), 'callers': 4,
                     'calls': 50000 if quick else 250000, 'pause': False, 'sync': False, 'bulk': True} for j in range(3)]
            # the state is ahead of the wall clock by more than a second (what a backward clock step leaves behind) and the
            # clock then passes milliseconds for which ids were already handed out (seed C31-1)
            gens += [{'kind': kinds[j % 3], 'machine': ctx.rng.choice([0, 5, 1023]), 'callers': 4, 'calls': 2000,
                      'pause': False, 'sync': False, 'bulk': True, 'ahead': ctx.rng.choice([1200, 2000, 5000])} for j in range(2 if quick else 6)]
        p = ctx.tmp(f'traces/t{k}.ndjson')
        paths.append(p)
        rec_cases.append({'mode': 'record', 'out': p, 'gens': gens, 'conc': k})
    rres, rlines = ctx.replay(binary, rec_cases, timeout=900, procs=1, env_extra={'GOMAXPROCS': '4'})
    for x in rres:
        if not x.get('ok'):
            raise vlib.Inconclusive('recorder failed: ' + str(x.get('msg'))[:500])
    total_ids = sum(int((x.get('extra') or {}).get('ids', 0)) for x in rres)
    rollovers = sum(int((x.get('extra') or {}).get('sequence_rollovers', 0)) for x in rres)
    accepted = 0
    for k, p in enumerate(paths):
        ok, tr = ctx.validate_trace('TraceIDs', 'TraceIDs.cfg', p, timeout=1500)
        with open(p) as f:
            tl = f.readlines()
        if ok:
            accepted += 1
            ctx.traces_validated += 1
            ctx.evaluations += len(tl)
            ctx.nontrivial_sigs.add(f'trace{k}:{len(tl)}')
            if len(ctx.samples) < 5:
                ctx.samples.append({'trace_head': [json.loads(x) for x in tl[:4]], 'lines': len(tl), 'gens': rec_cases[k]['gens']})
        else:
            import re
            m = re.search(r'"@@HW", (\d+), "of", (\d+)', tr.stdout)
            hw = int(m.group(1)) if m else None
            around = []
            if hw is not None:
                around = [json.loads(x) for x in tl[max(0, hw - 2):hw + 1]]   # hw = number of lines accepted; tl[hw] is the rejected one
            ctx.traces_validated += 1
            ctx.divergences.append({'case': {'trace': [x.strip() for x in tl[max(0, (hw or 0) - 30):(hw or 0) + 2]], 'gens': rec_cases[k]['gens']},
                                    'result': {'msg': f'ids recorded from the real generator are rejected by TraceIDs at line {hw}: {around} '
                                                      f'(violated={tr.violated})', 'patterns': [], 'step': hw}})
    ctx.extra_cov.update({'generator_traces': len(paths), 'generator_traces_accepted': accepted, 'generated_ids_validated': total_ids,
                          'sequence_rollovers_in_traces': rollovers,
                          'max_state_ahead_of_clock_ms': max(int((x.get('extra') or {}).get('max_state_ahead_ms', 0)) for x in rres)})
    ctx.rule = ('codec: every abstract string (length 0..MaxLen over the classes 0 / 1-9 / a-f / A-F / other; abstract length L = 16 '
                'characters) under N seeded concretisations, non-trivial = abstract length L-1..L+1 (15/16/17 characters); '
                'generators: ids of G generators x C concurrent callers x K calls per trace, one line per id, plus one bulk trace of 3 generators x 4 callers x 50 000 (quick) calls summarised per time value (pkg/snowflake.Generator, '
                'snowflake.IDGenerator with explicit and global machine id), each trace validated line by line by TraceIDs.tla')
    ctx.assumptions += [
        'H11: the fallback atomic increment after 100 failed CAS attempts is assumed not to hit a full sequence (it would carry into '
        'the machine bits); TLC shows the aliasing on the model when the assumption is dropped (IDs.Lead_H11.cfg), it cannot be forced '
        'on the real generator without a hook on now()',
        'the order in which ids were installed is recovered by sorting on (time, sequence): justified by StateMonotone (checked by TLC)',
        'clock-step-back scenario: now() cannot be replaced, so the generator state word is positioned ahead of the clock through an '
        'unsafe pointer to the first field of snowflake.Generator (verified at run time by the first id taken), ids are really taken '
        'there, and callers continue until the wall clock has passed those milliseconds',
        'the round trip over all 2^64 values is sampled by concretisation of the canonical strings, not enumerated',
    ]


META = {
    'level': 'model_checking',
    'text': 'TLC checks the snowflake generator\'s CAS loop (3 callers, stalling / backward clock, fallback) for distinct non-zero '
            'ids and enumerates the text codec over character-class strings; ids recorded from the real generators under concurrent '
            'use are validated by a trace specification, and every codec string is replayed on the real platform.ID codec.',
    'design_ref': '5.21',
    'note': 'Trusted: TLC, the recorder\'s field decomposition and sort, the concretisation of character classes. Uniqueness across '
            'different generator instances (machine ids) and the H11 fallback overflow are outside the validated runs.',
    'technique': 'TLA+ spec (IDs.tla, TraceIDs.tla) + TLC exhaustive + trace validation of real generator output + replay of codec classes',
    'quick_s': 120, 'thorough_s': 1200,
}
