"""C15 — tag WHERE clauses select exactly the matching series.

Spec: TSIExpr.tla (Eval over  tag = 'v' | tag != 'v' | tag =~ /r/ | tag !~ /r/ | AND | OR | parentheses; an absent tag is
""; regexes from a table whose language over the value domain is given extensionally).  TLC enumerates every expression
of depth <= 1 (5050) and a seeded sample of depth-2 expressions, computes Sat(e) over the 12-series universe, and proves
the set-form lemma Selected(e, S) = S ∩ Sat(e) for every series set S (Lemma configuration).  Binding: for series sets S
(all 4096 in the thorough tier) the series are created in real tsi1 indexes (plain log, compacted into index files, or two
indexes as for two shards), each expression is rendered as InfluxQL, parsed with influxql.ParseExpr and drained from
IndexSet.MeasurementSeriesByExprIterator; the result must equal S ∩ Sat(e)."""
import itertools
import json
import vlib

SPEC = 'TSIExpr'
TAGS = ('t1', 't2')


def cfg(depth, seed, k, with_sets, invariants):
    return ('SPECIFICATION Spec\nCONSTANTS\n'
            f'  Depth = {depth}\n  Seed = {seed}\n  K = {k}\n  WithSets = {"TRUE" if with_sets else "FALSE"}\n'
            f'INVARIANTS {invariants}\nCHECK_DEADLOCK FALSE\n')


def unq(ln):
    return ln[len('"@@J'):-1].replace('\\"', '"').replace('\\\\', '\\')


def parse(r):
    items, regtab = [], None
    seen = set()
    for ln in r.printed:
        ln = ln.strip()
        if not ln.endswith('"'):
            continue
        if ln.startswith('"@@JR'):
            regtab = json.loads(ln[len('"@@JR'):-1].replace('\\"', '"').replace('\\\\', '\\'))
            continue
        body = unq(ln)
        if body in seen:
            continue
        seen.add(body)
        try:
            items.append(json.loads(body))
        except Exception:
            pass
    return items, regtab


def run(ctx):
    thorough = ctx.tier == 'thorough'
    from concurrent.futures import ThreadPoolExecutor
    ncpu = vlib.NCPU
    pool = ThreadPoolExecutor(max_workers=max(1, min(5, ncpu // 3)))
    k2 = 40 if not thorough else 150
    # 1. the lemma Selected(e,S) = S ∩ Sat(e) for every S: all leaves (quick), all depth-1 expressions would be 2*10^7 states,
    #    so the thorough tier adds the seeded depth-2 sample restricted by K=6 (72 expressions x 4096 sets)
    f_lemma = pool.submit(ctx.tlc, SPEC, cfg(0, ctx.seed, 1, True, 'Lemma Partition'), timeout=1500, tag='lemma0', workers=min(4, ncpu), heap='4g')
    f_lemma2 = pool.submit(ctx.tlc, SPEC, cfg(2, ctx.seed, 4 if not thorough else 8, True, 'Lemma'), timeout=1500, tag='lemma2', workers=min(4, ncpu), heap='4g')
    # 2. expression pool with Sat(e)
    f_d = [pool.submit(ctx.tlc, SPEC, cfg(d, ctx.seed, k2, False, 'Lemma Partition Emit'), timeout=1500, tag=f'emit{d}', workers=2, heap='3g')
           for d in (0, 1, 2)]
    binary = ctx.go_build('tsiexpr')
    for f in (f_lemma, f_lemma2):
        r = f.result()
        if r.timed_out or not r.ok:
            raise vlib.Inconclusive('TLC lemma run did not pass: ' + '\n'.join(r.stdout.splitlines()[-25:]))
    exprs, regtab = [], None
    per_depth = {}
    for d, f in zip((0, 1, 2), f_d):
        r = f.result()
        if r.timed_out or not r.ok:
            raise vlib.Inconclusive(f'TLC emit run depth {d} did not pass: ' + '\n'.join(r.stdout.splitlines()[-25:]))
        items, rt_ = parse(r)
        if len(items) != r.distinct:
            raise vlib.Inconclusive(f'depth {d}: parsed {len(items)} expressions, TLC reports {r.distinct} states')
        regtab = regtab or rt_
        per_depth[f'depth{d}'] = len(items)
        exprs += items
    pool.shutdown()
    if not regtab or len(exprs) < 5000:
        raise vlib.Inconclusive('expression pool incomplete')
    ctx.extra_cov['expressions'] = per_depth
    n01 = per_depth['depth0'] + per_depth['depth1']
    pool_path = ctx.tmp('pool/exprs.json')
    with open(pool_path, 'w') as f:
        json.dump(exprs, f, separators=(',', ':'))

    # 3. series sets over the 12-series universe
    universe = [{'t1': a, 't2': b} for a in ('', 'a', 'b', 'ab') for b in ('', 'a', 'b')]
    rng = ctx.rng
    all_sets = list(range(1 << 12))
    if thorough:
        chosen_sets = all_sets
        per_set = None            # the whole depth<=1 pool for every set, plus a sample of depth 2
    else:
        fixed = [0, (1 << 12) - 1] + [1 << i for i in range(12)]
        chosen_sets = fixed + rng.sample(all_sets, 500)
        per_set = 450
    cases = []
    pairs = 0
    for n, mask in enumerate(chosen_sets):
        series = [universe[i] for i in range(12) if mask >> i & 1]
        if per_set is None:
            sel = list(range(n01)) + rng.sample(range(n01, len(exprs)), 400)
        else:
            sel = rng.sample(range(len(exprs)), per_set)
        pairs += len(sel)
        cases.append({'series': series, 'pool': pool_path, 'sel': sel, 'variant': rng.randrange(4),
                      'layout': rng.choice(['log', 'log', 'compact', 'two']), 'cacheSize': rng.choice([100, 0]),
                      'parts': rng.choice([1, 2]), 'regtab': regtab})
    ctx.exhaustive = bool(thorough)
    res, lines = ctx.replay(binary, cases, timeout=1700, procs=min(16, ncpu), case_timeout='900s')
    ctx.absorb(res, lines, sample=0)
    ctx.samples = [{'series': c['series'], 'first_expressions': [exprs[i] for i in c['sel'][:3]], 'layout': c['layout'],
                    'variant': c['variant']} for c in cases[:3]]
    ctx.evaluations = sum(int(x.get('evals', 0) or 0) for x in res)
    ctx.extra_cov['series_sets_replayed'] = len(cases)
    ctx.extra_cov['expr_series_set_pairs'] = pairs
    ctx.extra_cov['selective_pairs'] = sum(int((x.get('extra') or {}).get('selective', 0)) for x in res)
    ctx.rule = ('a case = one series set S of measurement m over 2 tags x {"",a,b,(ab)} with a batch of expressions; evaluations = '
                '(expression, series set) pairs run through ParseExpr + MeasurementSeriesByExprIterator and compared with S ∩ Sat(e); '
                'non-trivial case = at least one expression selected a proper non-empty subset of S; thorough tier: every series set x '
                'every expression of depth <= 1, plus a seeded sample of depth-2 expressions')
    ctx.assumptions += [
        'InfluxQL regex semantics = Go regexp, unanchored; the spec\'s extensional regex table is re-validated against Go regexp by the driver',
        'measurement has no fields named like the tags (otherwise the index defers the comparison to the query engine)',
    ]


META = {
    'level': 'model_checking',
    'text': 'TLC enumerates all tag expressions of depth <= 1 and a seeded sample of depth 2 over 2 tags, computes their '
            'satisfaction sets and checks the set-form contract for every series set; every series set (thorough) / a sample '
            '(quick) is built in real tsi1 indexes and every expression is evaluated by the real IndexSet and compared for equality.',
    'design_ref': '5.8',
    'note': 'Trusted: TLC, the extensional regex table (re-validated against Go regexp), influxql.ParseExpr round-trip check in the driver.',
    'technique': 'TLA+ spec (TSIExpr.tla) + TLC enumeration + replay of (expression, series set) pairs on the real index',
    'quick_s': 90, 'thorough_s': 900,
}
