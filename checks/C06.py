"""C06 — multi-file block reads return the exact newest-wins merge.  Spec: TSMMerge.tla, family "read".
TLC enumerates file layouts (files oldest to newest, one key, <= 2 ordered disjoint blocks per file over a small timestamp
domain, tombstone ranges per file) and computes, for every seek time -1..NTs and both directions, the sequence a key cursor
must hand out: LWW(files) (newest file that still holds the timestamp wins, tombstoned points of a file do not count) filtered
by the seek time.  The driver writes the layout as real TSM files (tsm1.NewTSMWriter), adds the tombstones with
TSMReader.DeleteRange, opens a FileStore and drains KeyCursor.Read{T}Block and Read{T}ArrayBlock (Next() until empty) for all
five value types; the concatenation must equal the spec's sequence exactly."""
import os
import sys
sys.path.insert(0, os.path.dirname(os.path.abspath(__file__)))
import tsmmerge_common as T  # noqa: E402
import vlib  # noqa: E402

CONCS = ['small', 'lo', 'hi', 'wide', 'rand']
INV = ('LWWIsFold', 'ReadLemmas')


def decorate(states, nts, seed, ntypes, nconc, base=0):
    out = []
    for i, st in enumerate(states):
        k = i + seed
        types = T.ALL_TYPES if ntypes >= 5 else [T.ALL_TYPES[(k + j) % 5] for j in range(ntypes)]
        conc = [CONCS[(k // 5 + j) % len(CONCS)] for j in range(nconc)]
        out.append(dict(st, nts=nts, types=types, conc=conc, salt=base + i))
    return out


def picks_run(ctx, name, nfiles, nts, count, max_tombs=2):
    picks = T.dedupe([T.rand_files(ctx.rng, nfiles, 1, nts, max_tombs=max_tombs) for _ in range(count)])
    cfg = T.cfg_text('read', nts, nfiles=nfiles, tombmode='none', npicks=len(picks), invariants=INV)
    r, states = T.run_family(ctx, cfg, spec=name, extra_files={name + '.tla': T.picks_module(name, picks)}, tag=name)
    if len(states) != len(picks):
        raise vlib.Inconclusive(f'{name}: {len(picks)} picks but {len(states)} valid cases')
    return states


def run(ctx):
    tier = ctx.tier
    cases = []
    cov = {}
    r, st = T.run_family(ctx, f'TSMMerge.ReadA_{tier}.cfg', tag='readA', timeout=3600)
    cov['exhaustive_2files_4ts_no_tombstone' if tier == 'quick' else 'exhaustive_2files_4ts_le1tombstone'] = len(st)
    cases += decorate(st, 4, ctx.seed, 5, 1)
    r, st = T.run_family(ctx, f'TSMMerge.ReadB_{tier}.cfg', tag='readB', timeout=3600)
    cov['exhaustive_2files_3ts_le1tombstone_per_file' if tier == 'quick' else 'exhaustive_3files_3ts_le1tombstone'] = len(st)
    cases += decorate(st, 3, ctx.seed, 5, 1, base=10 ** 6)
    if tier == 'quick':
        st = picks_run(ctx, 'MCRead3', 3, 5, 800)
        cov['sampled_3files_5ts_le2tombstones_per_file'] = len(st)
        cases += decorate(st, 5, ctx.seed, 5, 1, base=2 * 10 ** 6)
    else:
        r, st = T.run_family(ctx, 'TSMMerge.ReadB_quick.cfg', tag='readB2', timeout=3600)
        cov['exhaustive_2files_3ts_le1tombstone_per_file'] = len(st)
        cases += decorate(st, 3, ctx.seed, 5, 1, base=5 * 10 ** 6)
        st = picks_run(ctx, 'MCRead2', 2, 4, 4000)
        cov['sampled_2files_4ts_le2tombstones_per_file'] = len(st)
        cases += decorate(st, 4, ctx.seed, 5, 1, base=2 * 10 ** 6)
        st = picks_run(ctx, 'MCRead3', 3, 5, 6000)
        cov['sampled_3files_5ts_le2tombstones_per_file'] = len(st)
        cases += decorate(st, 5, ctx.seed, 5, 1, base=3 * 10 ** 6)
        st = picks_run(ctx, 'MCRead4', 4, 4, 3000)
        cov['sampled_4files_4ts_le2tombstones_per_file'] = len(st)
        cases += decorate(st, 4, ctx.seed, 5, 1, base=4 * 10 ** 6)
    binary = ctx.go_build('tsmmerge')
    res, lines = ctx.replay(binary, cases, args={'shm': 1}, timeout=7200)
    ctx.absorb(res, lines)
    ctx.exhaustive = False
    ctx.extra_cov.update(cov)
    ctx.extra_cov['exhaustive_parts'] = [k for k in cov if k.startswith('exhaustive')]
    ctx.rule = ('case = one TLC state: a file layout (files oldest first; <= 2 ordered disjoint blocks per file; tombstone ranges '
                'per file) with the expected sequences for every seek time -1..NTs and both directions. Exhaustive parts enumerate '
                'every layout of the stated shape; sampled parts are layouts drawn with VERIF_SEED and given to the spec as '
                'explicit inputs (NPicks / PickAt). Each case is written as one set of real TSM files holding one series per value '
                'type (booleans: one series per bit of the file index) under a timestamp concretisation that rotates over the '
                'cases, and drained with Read{T}Block and Read{T}ArrayBlock from every seek time in both directions. non-trivial = two files hold blocks with overlapping time ranges, or a '
                'tombstone removes a proper part of a block; distinct by layout.')
    ctx.assumptions += [
        'timestamps and seek times lie in [models.MinNanoTime, models.MaxNanoTime] (MinInt64 is not a valid timestamp)',
        'blocks of one file are ordered and do not overlap (the TSM writer\'s invariant); blocks hold <= 5 points',
        'a block read is consumed as the engine cursors do: Read, use the values (from the end when descending), Next, Read; an '
        'empty block ends the iteration',
        'tombstones are per file (TSMReader.DeleteRange on that file): a tombstoned point of a newer file lets the older '
        'file\'s point at that timestamp show',
    ]


META = {
    'level': 'model_checking',
    'text': 'TLC enumerates every two-file layout over 4 timestamps without tombstones and over 3 timestamps with a tombstone '
            'range per file (thorough: also 4 timestamps with a tombstone and every three-file layout over 3 timestamps) plus '
            'seeded two/three/four-file layouts, computes the exact newest-wins sequence for every seek time and direction from '
            'the set-algebra contract (LWW as the fold of the array Merge, checked as an invariant) and every state is replayed on '
            'real TSM files through FileStore.KeyCursor in scalar and array form for all five value types.',
    'design_ref': '5.2',
    'note': 'Exhaustive for 2 files x <= 2 blocks per file over 4 timestamps (tombstones: quick over 3 timestamps, thorough over 4); '
            'larger layouts are sampled by seed. One key per cursor; blocks are tiny. Trusted: TLC, the driver\'s drain loop and concretisation.',
    'technique': 'TLA+ spec (TSMMerge.tla, family read) + TLC input enumeration + replay of every state on real TSM files / KeyCursor',
    'quick_s': 120, 'thorough_s': 1300,
}
