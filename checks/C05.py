"""C05 - compaction plans never reorder data or double-book files.  Spec: Planner.tla.

Model side: TLC checks the contract (whole generations, disjoint from held groups and siblings, contiguous in generation
order) on the transcription of tsm1.DefaultPlanner for every reachable (file store, filesInUse, forceFull, lastPlanCheck)
state of several store families and every order of PlanLevel/Plan/PlanOptimize/ForceFull/Release plus environment steps
(snapshot adds a generation, a held compaction finishes).  The full-plan branch is held to the weaker "every skipped
generation is an in-use or over-size one" (finding F2); the strict contract is checked separately, its counterexamples
are replayed on the real planner and must reproduce.
Code side: TLC histories (every 2..3-step history of two store families, and random long behaviours) are replayed on the
real tsm1.DefaultPlanner over a fake file store; every group returned by the history's calls and by probe calls made at
every visited state is checked against the CONTRACT; differences from the transcription are drift only."""
import json
import os
import re
import subprocess
import time
from concurrent.futures import ThreadPoolExecutor

import vlib

PLAN_ACTIONS = ['DoPlanLevel', 'DoPlan', 'DoPlanOptimize', 'DoForceFull', 'ReleaseAny', 'DoSetupAdd', 'DoStart']
ENV_ACTIONS = ['DoSnapshot', 'FinishAny']


def hist_lines(stdout):
    """histories printed by EmitMaximal: lines  "@@J<json>"  (a TLA+ string = a JSON string literal)"""
    seen = set()
    out = []
    for line in stdout.splitlines():
        if not line.startswith('"@@J'):
            continue
        try:
            s = json.loads(line)
        except Exception:
            raise vlib.Inconclusive('unparsable history line from TLC: ' + line[:200])
        body = s[3:]
        if body in seen:
            continue
        seen.add(body)
        out.append(json.loads(body))
    return out


def tlc_sim(ctx, spec, cfg, num, depth, workers, timeout, tag):
    """TLC -simulate without behaviour files (the histories are printed by the EmitMaximal invariant)."""
    wd = ctx._spec_workdir(tag)
    meta = os.path.join(ctx.scratch, 'meta-' + tag)
    cmd = ['java', '-Xmx4g', '-XX:+UseParallelGC', '-Xss512m', '-cp',
           '/opt/veriftools/tla/tla2tools.jar:/opt/veriftools/tla/CommunityModules-deps.jar', 'tlc2.TLC',
           '-workers', str(workers), '-metadir', meta, '-config', cfg, '-simulate', f'num={num}', '-depth', str(depth),
           '-seed', str(ctx.seed), spec + '.tla']
    env = dict(os.environ)
    env.pop('JAVA_TOOL_OPTIONS', None)
    t0 = time.time()
    try:
        p = subprocess.run(cmd, cwd=wd, stdout=subprocess.PIPE, stderr=subprocess.STDOUT, timeout=timeout, env=env,
                           text=True, errors='replace')
        out, timed_out = p.stdout, False
    except subprocess.TimeoutExpired as e:
        out = e.stdout or ''
        if isinstance(out, bytes):
            out = out.decode('utf-8', 'replace')
        timed_out = True
        subprocess.run(['pkill', '-f', meta], stdout=subprocess.DEVNULL, stderr=subprocess.DEVNULL)
    m = re.search(r'The number of states generated: (\d+)', out)
    n = int(m.group(1)) if m else 0
    if not timed_out and ('Error:' in out or n == 0):
        raise vlib.Inconclusive(f'TLC simulation failed on {cfg}:\n' + '\n'.join(
            ln for ln in out.splitlines() if not ln.startswith('"@@J'))[-2000:])
    ctx.states += n
    ctx.transitions += n
    ctx.tlc_runs.append({'spec': spec, 'cfg': cfg, 'generated': n, 'distinct': n, 'depth': depth, 'ok': True,
                         'violated': None, 'wall_s': round(time.time() - t0, 1), 'mode': 'simulate',
                         'stopped_by_budget': timed_out})
    return hist_lines(out)


def run(ctx):
    tier = ctx.tier
    thorough = tier != 'quick'
    binary = ctx.go_build('planner')

    if getattr(ctx, 'replay_path', None):
        with open(ctx.replay_path) as f:
            case = json.load(f)['case']
        ctx.states = ctx.transitions = 1
        res, lines = ctx.replay(binary, [case], procs=1)
        ctx.absorb(res, lines)
        ctx.rule = 'replay of one stored case'
        return

    mcs = ['MCwide', 'MClong', 'MCenv'] + (['MClvl1'] if thorough else [])
    gens = ['Gen', 'Genlong']
    w = max(1, min(4, vlib.NCPU))                  # TLC workers per run
    par = max(1, vlib.NCPU // 4)                   # concurrent TLC runs (1 when only 4 cpus are granted)
    to = 2400 if thorough else 1500

    def mc(name):
        r = ctx.tlc('Planner', f'Planner.{name}_{tier}.cfg', timeout=to, coverage=True, workers=w, tag=name)
        return name, r

    def gen(name):
        r = ctx.tlc('Planner', f'Planner.{name}_{tier}.cfg', timeout=to, workers=w, tag=name, count=False)
        return name, r

    def lead(name):
        r = ctx.tlc('Planner', f'Planner.{name}_quick.cfg', timeout=900, workers=min(2, w), tag=name, count=False)
        return name, r

    with ThreadPoolExecutor(max_workers=par) as ex:
        f_mc = [ex.submit(mc, n) for n in mcs]
        f_lead = [ex.submit(lead, n) for n in ('F2inuse', 'F2oversize')]
        f_gen = [ex.submit(gen, n) for n in gens]
        mc_res = [f.result() for f in f_mc]
        lead_res = [f.result() for f in f_lead]
        gen_res = [f.result() for f in f_gen]

    # 1. the contract on the model, exhaustively per family (action property HandOutOK + bookkeeping invariants)
    for name, r in mc_res:
        if r.timed_out:
            raise vlib.Inconclusive(f'TLC timed out on Planner.{name}_{tier}.cfg')
        if not r.ok:
            raise vlib.Inconclusive(f'TLC did not pass on Planner.{name}_{tier}.cfg: violated={r.violated}\n'
                                    + '\n'.join(r.stdout.splitlines()[-30:]))
        with open(os.path.join(ctx.spec_dir, f'Planner.{name}_{tier}.cfg')) as f:
            no_env = re.search(r'MaxEnv\s*=\s*0\b', f.read()) is not None      # configs without environment steps
        need = PLAN_ACTIONS + ([] if no_env else ENV_ACTIONS)
        ctx.check_coverage(r, need)
        ctx.extra_cov[f'model_{name}_distinct_states'] = r.distinct

    cases = []
    # 2. leads: the strict contract fails on the model in the full-plan branch (F2); the counterexamples must reproduce
    nlead = 0
    for name, r in lead_res:
        if r.timed_out or (not r.ok and not r.violated):
            raise vlib.Inconclusive(f'TLC failed on Planner.{name}_quick.cfg:\n' + '\n'.join(r.stdout.splitlines()[-30:]))
        if r.violated and r.trace:
            import tlaval
            last = tlaval.plain(r.trace[-1][1])
            cases.append({'steps': last['hist'], 'probe': False, 'expect': 'f2', 'origin': name})
            nlead += 1
    ctx.extra_cov['model_counterexamples_replayed'] = nlead

    # 3. every maximal history of the generation configs
    nexh = 0
    for name, r in gen_res:
        if r.timed_out or not r.ok:
            raise vlib.Inconclusive(f'TLC failed on Planner.{name}_{tier}.cfg: violated={r.violated}\n'
                                    + '\n'.join(ln for ln in r.stdout.splitlines() if not ln.startswith('"@@J'))[-2000:])
        hs = hist_lines(r.stdout)
        if not hs:
            raise vlib.Inconclusive(f'no histories generated by Planner.{name}_{tier}.cfg')
        ctx.states += r.distinct
        ctx.transitions += r.generated
        ctx.extra_cov[f'histories_{name}'] = len(hs)
        nexh += len(hs)
        cases += [{'steps': h, 'probe': True, 'origin': name} for h in hs]
    ctx.exhaustive = True   # every maximal history of the Gen configs is replayed (no sampling); simulation is extra

    # 4. random long behaviours
    sims = [('Sim', 150, 21), ('Simrun', 100, 20)] if not thorough else [('Sim', 2500, 32), ('Simrun', 1500, 28)]
    with ThreadPoolExecutor(max_workers=min(2, par)) as ex:
        fs = [ex.submit(tlc_sim, ctx, 'Planner', f'Planner.{n}_{tier}.cfg', num * 4 // w, depth, w, 900 if thorough else 600, n)
              for n, num, depth in sims]
        for (n, _, _), f in zip(sims, fs):
            hs = f.result()
            if not hs:
                raise vlib.Inconclusive(f'simulation {n} produced no behaviours')
            ctx.extra_cov[f'behaviours_{n}'] = len(hs)
            cases += [{'steps': h, 'probe': True, 'origin': n} for h in hs]

    res, lines = ctx.replay(binary, cases, timeout=1500)
    ctx.absorb(res, lines)
    ctx.extra_cov['planner_calls_checked'] = sum(int(r.get('evals') or 0) for r in res)
    ctx.rule = ('cases = TLC histories of Planner.tla replayed on the real DefaultPlanner: every maximal history of the '
                'Gen/Genlong configs (all orders of non-idle PlanLevel/Plan/PlanOptimize/ForceFull/Release/snapshot/finish '
                'steps up to the bound, from every initial store of the family), random behaviours of the Sim configs, and the '
                'model counterexamples of the strict contract; at every visited state 8 probe calls are checked too. '
                'non-trivial = a history in which a call handed out a group while another group was held, or Plan ran its '
                'full branch; distinct by case hash')
    ctx.assumptions += [
        'FindGenerations and the planning call are one atomic step (the engine passes the generations it just listed)',
        'sizes are multiples of 512 MiB (1, 4, 6 units; MaxTSMFileSize = 4 units); all files of a generation share size and first-block count',
        'generation ids fit the %09d file-name format, so name order = numeric order (FileStore invariant)',
        'LastModified is driven by the driver from the spec variable dirty (far future = modified since the last plan check)',
    ]


META = {
    'level': 'model_checking',
    'text': 'TLC checks the C05 contract on a transcription of DefaultPlanner for all reachable planner/file-store states of '
            'bounded store families and all call orders; TLC-generated multi-step histories are replayed on the real planner '
            'with the returned groups judged by the contract predicates only.',
    'design_ref': '5.4',
    'note': 'Trusted: TLC, the contract predicate in the driver (world.contract, 90 lines), the fake fileStore. The full-plan '
            'branch of Plan violates contiguity by design of the code (F2, known finding with two input predicates).',
    'technique': 'TLA+ spec (Planner.tla) + TLC exhaustive/simulation + replay of TLC histories on the real DefaultPlanner',
    'quick_s': 150, 'thorough_s': 1500,
}
