"""C04 — compaction preserves the logical content of TSM files.  Spec: TSMMerge.tla, families "compact" and "snapshot".
TLC enumerates sets of input files (oldest first; per key <= 2 ordered disjoint blocks over a small timestamp domain; tombstone
ranges per file and key; one or two keys) and cache contents (sequences of writes), and computes what the output must hold:
per key LWW(inputs) (later file / later write wins, tombstoned ranges removed) and the bound on points per block.  The driver
writes the inputs as real TSM files (tombstones through TSMReader.DeleteRange), runs Compactor.CompactFast and CompactFull for
every points-per-block setting (and Compactor.WriteSnapshot / NewCacheKeyIterator for cache contents), decodes every block of
every output file with TSMReader and checks content = expected and the spec's WellFormed predicate: keys strictly sorted in a
file, blocks of a key ordered and disjoint (across rolled files too), every block non-empty, sorted and <= the bound."""
import json
import os
import sys
sys.path.insert(0, os.path.dirname(os.path.abspath(__file__)))
import tsmmerge_common as T  # noqa: E402
import vlib  # noqa: E402

CONCS = ['small', 'lo', 'hi', 'wide', 'rand']
CINV = ('LWWIsFold', 'CompactLemmas')
MODES = ['fast', 'full']


def decorate(states, nts, seed, ntypes, nconc, base=0, rotate_modes=False, **extra):
    out = []
    for i, st in enumerate(states):
        k = i + seed
        types = T.ALL_TYPES if ntypes >= 5 else [T.ALL_TYPES[(k + j) % 5] for j in range(ntypes)]
        conc = [CONCS[(k // 5 + j) % len(CONCS)] for j in range(nconc)]
        modes = [MODES[k % 2]] if rotate_modes else MODES
        out.append(dict(st, nts=nts, types=types, conc=conc, modes=modes, salt=base + i, **extra))
    return out


def picks_run(ctx, name, picks, nts, nfiles, nkeys):
    picks = T.dedupe(picks)
    cfg = T.cfg_text('compact', nts, nfiles=nfiles, nkeys=nkeys, tombmode='none', npicks=len(picks), invariants=CINV)
    r, states = T.run_family(ctx, cfg, spec=name, extra_files={name + '.tla': T.picks_module(name, picks)}, tag=name)
    if len(states) != len(picks):
        raise vlib.Inconclusive(f'{name}: {len(picks)} picks but {len(states)} valid cases')
    return states


def roll_picks(n):
    """Inputs whose merged key has to be re-encoded (overlapping files), so that ppb=1 yields more than 65535 blocks once
    every abstract point is stretched into 17000 concrete ones.  Two-key format, the second key is absent."""
    full = [0, 1, 2, 3]
    no = {'blocks': [], 'tombs': []}

    def f(blocks, tombs=()):
        return [{'blocks': blocks, 'tombs': [list(t) for t in tombs]}, dict(no)]
    base = [
        [f([full]), f([full])],
        [f([[0, 1], [2, 3]]), f([[1, 2, 3]], [(2, 2)]), f([[0, 3]])],
        [f([full], [(1, 1)]), f([[0, 1, 2]])],
        [f([[0, 2, 3]]), f([[1, 2], [3]]), f([full], [(0, 0)])],
    ]
    return base[:n]


def run(ctx):
    tier = ctx.tier
    cases = []
    cov = {}
    quick = tier == 'quick'
    r, st = T.run_family(ctx, f'TSMMerge.CompactA_{tier}.cfg', tag='compactA', timeout=3600)
    cov['exhaustive_2files_1key_4ts_no_tombstone' if quick else 'exhaustive_2files_1key_4ts_le1tombstone'] = len(st)
    cases += decorate(st, 4, ctx.seed, 5, 1)
    r, st = T.run_family(ctx, f'TSMMerge.CompactB_{tier}.cfg', tag='compactB', timeout=3600)
    cov['exhaustive_2files_1key_3ts_le1tombstone_per_file'] = len(st)
    cases += decorate(st, 3, ctx.seed, 5, 1, base=10 ** 6, rotate_modes=quick)
    r, st = T.run_family(ctx, f'TSMMerge.CompactKeys_{tier}.cfg', tag='compactkeys', timeout=3600)
    cov['exhaustive_2files_2keys_reduced_slots'] = len(st)
    cases += decorate(st, 3, ctx.seed, 5, 1, base=2 * 10 ** 6, rotate_modes=quick)
    r, st = T.run_family(ctx, f'TSMMerge.Snapshot_{tier}.cfg', tag='snapshot', timeout=3600)
    cov['exhaustive_cache_write_sequences'] = len(st)
    cases += decorate(st, 3, ctx.seed, 5, 1, base=3 * 10 ** 6)
    n3 = 400 if tier == 'quick' else 3000
    # file rolling: > 65535 blocks of one key force ErrMaxBlocksExceeded and a second output file (ppb = 1 only)
    rp = roll_picks(1 if tier == 'quick' else 4)
    rkeys = {json.dumps(p, sort_keys=True) for p in rp}
    st = picks_run(ctx, 'MCCompact3', [T.rand_files(ctx.rng, 3, 2, 5) for _ in range(n3)] + rp, 5, 3, 2)
    rolls = [x for x in st if json.dumps(x['c']['files'], sort_keys=True) in rkeys]
    st = [x for x in st if json.dumps(x['c']['files'], sort_keys=True) not in rkeys]
    cov['sampled_3files_2keys_5ts'] = len(st)
    cases += decorate(st, 5, ctx.seed, 5, 1 if tier == 'quick' else 2, base=4 * 10 ** 6)
    cov['file_rolling_scenarios'] = len(rolls)
    roll = decorate(rolls, 5, ctx.seed, 1, 1, base=6 * 10 ** 6, stretch=17000, only_ppb=1)
    for c in roll:
        c['modes'] = ['full'] if tier == 'quick' else MODES
        c['conc'] = ['small']
    cases += roll
    if tier != 'quick':
        st = picks_run(ctx, 'MCCompact4', [T.rand_files(ctx.rng, 4, 1, 4) for _ in range(1500)], 4, 4, 1)
        cov['sampled_4files_1key_4ts'] = len(st)
        cases += decorate(st, 4, ctx.seed, 5, 2, base=5 * 10 ** 6)
    binary = ctx.go_build('tsmmerge')
    res, lines = ctx.replay(binary, cases, args={'shm': 1}, timeout=7200, case_timeout='1800s')
    ctx.absorb(res, lines)
    rolled = [r for r, c in zip(res, cases) if c.get('stretch') and r.get('ok') and r.get('nontrivial')]
    if len(rolled) == 0 and all(r.get('ok') for r, c in zip(res, cases) if c.get('stretch')):
        raise vlib.Inconclusive('file rolling scenario produced a single output file (vacuous)')
    ctx.exhaustive = False
    ctx.extra_cov.update(cov)
    ctx.extra_cov['exhaustive_parts'] = [k for k in cov if k.startswith('exhaustive')]
    ctx.extra_cov['file_rolling_scenarios_with_several_output_files'] = len(rolled)
    ctx.rule = ('case = one TLC state: input files (oldest first; per key <= 2 ordered disjoint blocks, tombstone ranges per file '
                'and key) or a sequence of cache writes, with the expected content per key and the block-size bound per '
                'points-per-block setting. Exhaustive parts enumerate every input of the stated shape, sampled parts are drawn '
                'with VERIF_SEED and passed to the spec as explicit inputs (NPicks / PickAt). Each file case runs CompactFast and CompactFull for every ppb in '
                '{1,2,3,1000} (in the quick tier the cases of the two larger exhaustive parts alternate between fast and full); each cache case runs WriteSnapshot and NewCacheKeyIterator for every ppb (every input holds one '
                'series per value type, booleans one per bit of the file index; the timestamp concretisation rotates over the cases). '
                'non-trivial = blocks of the same key in two input files overlap in time, or a tombstone removes a proper part of '
                'a block (files); a timestamp of a key written twice (cache); more than one output file (rolling); distinct by input.')
    ctx.assumptions += [
        'timestamps lie in [models.MinNanoTime, models.MaxNanoTime]',
        'input blocks of one key in one file are ordered and disjoint (the writer\'s invariant)',
        'block-size bound = max(ppb, largest input block): blocks that already hold >= ppb points are copied undecoded by the '
        'compactor; the bound is exactly ppb whenever every input block respects ppb',
        'optimize compactions are CompactFull with another points-per-block value and are covered by the ppb settings',
        'files are compacted in generation order as one group; tombstones are per file',
        'a cache snapshot is deduplicated (Cache.Deduplicate) before Compactor.WriteSnapshot, as Engine.WriteSnapshot does',
    ]


META = {
    'level': 'model_checking',
    'text': 'TLC enumerates every two-file one-key input over 4 timestamps (quick: without tombstones) and over 3 timestamps with a '
            'tombstone range per file, every two-file two-key input over reduced slot layouts, every short cache write sequence, plus seeded three/four-file inputs; expected content is LWW(inputs) from '
            'the set-algebra contract (invariants: LWW = fold of Merge, the contract is satisfiable by chunking). Every state is '
            'replayed through the real Compactor (fast, full, snapshot) for each points-per-block setting and the decoded output '
            'is compared with the expectation and the well-formedness predicate.',
    'design_ref': '5.2',
    'note': 'Exhaustive parts are small (2 files, <= 2 blocks per key and file, 4 timestamps); larger inputs are sampled by seed; '
            'MaxTSMFileSize rolling is not exercised (2 GB), ErrMaxBlocksExceeded rolling is. Trusted: TLC, the driver\'s '
            'transcription of the WellFormed predicate (checkOutput, 50 lines) and its concretisation.',
    'technique': 'TLA+ spec (TSMMerge.tla, families compact/snapshot) + TLC input enumeration + replay of every state on the real Compactor',
    'quick_s': 150, 'thorough_s': 1500,
}
