"""C04 — compaction preserves the logical content of TSM files.  Spec: TSMMerge.tla, families "compact" and "snapshot".
TLC enumerates sets of input files (oldest first; per key <= 2 ordered disjoint blocks over a small timestamp domain; tombstone
ranges per file and key; one or two keys) and cache contents (sequences of writes), and computes what the output must hold:
per key LWW(inputs) (later file / later write wins, tombstoned ranges removed) and the bound on points per block.  The driver
writes the inputs as real TSM files (tombstones through TSMReader.DeleteRange), runs Compactor.CompactFast and CompactFull for
every points-per-block setting (and Compactor.WriteSnapshot / NewCacheKeyIterator for cache contents), decodes every block of
every output file with TSMReader and checks content = expected and the spec's WellFormed predicate: keys strictly sorted in a
file, blocks of a key ordered and disjoint (across rolled files too), every block non-empty, sorted and <= the bound."""
import json
import os
import sys
sys.path.insert(0, os.path.dirname(os.path.abspath(__file__)))
import tsmmerge_common as T  # noqa: E402
import vlib  # noqa: E402

CONCS = ['small', 'lo', 'hi', 'wide', 'rand']
CINV = ('LWWIsFold', 'CompactLemmas')
MODES = ['fast', 'full']


PROBES = ['has', 'stats', 'fsstats', '']


def has_tombs(st):
    return any(sl['tombs'] for f in st['c']['files'] for sl in f)


def decorate(states, nts, seed, ntypes, nconc, base=0, rotate_modes=False, **extra):
    """Attach the concretisation of each case.  Cases with tombstones alternate between the two ways the code base adds
    them: TSMReader.DeleteRange on the file before the store opens it, and the engine's way (batch delete on the store's live
    readers with a statistics call while the tombstones are pending, then compaction of those same readers)."""
    out = []
    for i, st in enumerate(states):
        k = i + seed
        types = T.ALL_TYPES if ntypes >= 5 else [T.ALL_TYPES[(k + j) % 5] for j in range(ntypes)]
        conc = [CONCS[(k // 5 + j) % len(CONCS)] for j in range(nconc)]
        modes = [MODES[k % 2]] if rotate_modes else MODES
        c = dict(st, nts=nts, types=types, conc=conc, modes=modes, salt=base + i, **extra)
        if 'files' in st['c'] and has_tombs(st) and k % 2 == 0 and not extra.get('stretch'):
            c['tomb_api'] = 'live'
            c['probe'] = PROBES[(k // 2) % len(PROBES)]
        out.append(c)
    return out


def nblocks(files, key, stretch, split):
    return sum(-(-len(b) * stretch // split) for f in files for b in f[key]['blocks'])


def many_blocks(states, nts, seed, base, every=1, rotate_modes=False, big_every=0):
    """Refinement with many blocks per key: every abstract point becomes `stretch` concrete points and every block is cut
    into concrete blocks of 1 or 2 points, so that the busiest key has 13..20 blocks across the input files (more than the 12
    up to which sort.Sort is an insertion sort, at most the 20 up to which sort.Stable is one) while the abstract series, and
    the spec's expectation, stay small.  Every big_every-th refinement aims at 21..28 blocks instead."""
    out = []
    for i, st in enumerate(states):
        if i % every:
            continue
        k = i + seed
        files = st['c']['files']
        nkeys = len(files[0])
        split = 1 + k % 2
        lo, hi = (21, 28) if big_every and (i // every) % big_every == 0 else (13, 20)
        target = lo + (k // 2) % (hi - lo + 1)
        best = None
        for stretch in range(2, 40):
            nb = max(nblocks(files, key, stretch, split) for key in range(nkeys))
            score = (0 if lo <= nb <= hi else 1, abs(nb - target))
            if best is None or score < best[0]:
                best = (score, stretch)
        c = dict(st, nts=nts, types=T.ALL_TYPES, conc=[CONCS[(k // 3) % 3]], modes=[MODES[k % 2]] if rotate_modes else MODES,
                 salt=base + i, stretch=best[1], split=split)
        if has_tombs(st) and k % 2 == 0:
            c['tomb_api'] = 'live'
            c['probe'] = PROBES[(k // 2) % len(PROBES)]
        out.append(c)
    return out


def regression_picks():
    """Layouts that showed a defect of the unchanged tree (known finding stable_sort_nontransitive_block_order); replayed with
    the refinement under which it shows (stretch 5, blocks of 2 points: 24 blocks of key 1 across 3 files)."""
    no = {'blocks': [], 'tombs': []}
    return [[[{'blocks': [[0, 2], [3]], 'tombs': []}, dict(no)],
             [{'blocks': [[2, 3, 4]], 'tombs': []}, dict(no)],
             [{'blocks': [[1, 2], [3]], 'tombs': []}, dict(no)]]]


def picks_run(ctx, name, picks, nts, nfiles, nkeys):
    picks = T.dedupe(picks)
    cfg = T.cfg_text('compact', nts, nfiles=nfiles, nkeys=nkeys, tombmode='none', npicks=len(picks), invariants=CINV)
    r, states = T.run_family(ctx, cfg, spec=name, extra_files={name + '.tla': T.picks_module(name, picks)}, tag=name)
    if len(states) != len(picks):
        raise vlib.Inconclusive(f'{name}: {len(picks)} picks but {len(states)} valid cases')
    return states


def roll_picks(n):
    """Inputs whose merged key has to be re-encoded (overlapping files), so that ppb=1 yields more than 65535 blocks once
    every abstract point is stretched into 17000 concrete ones.  Two-key format, the second key is absent."""
    full = [0, 1, 2, 3]
    no = {'blocks': [], 'tombs': []}

    def f(blocks, tombs=()):
        return [{'blocks': blocks, 'tombs': [list(t) for t in tombs]}, dict(no)]
    base = [
        [f([full]), f([full])],
        [f([[0, 1], [2, 3]]), f([[1, 2, 3]], [(2, 2)]), f([[0, 3]])],
        [f([full], [(1, 1)]), f([[0, 1, 2]])],
        [f([[0, 2, 3]]), f([[1, 2], [3]]), f([full], [(0, 0)])],
    ]
    return base[:n]


def run(ctx):
    tier = ctx.tier
    cases = []
    cov = {}
    quick = tier == 'quick'
    r, st = T.run_family(ctx, f'TSMMerge.CompactA_{tier}.cfg', tag='compactA', timeout=3600)
    cov['exhaustive_2files_1key_4ts_no_tombstone' if quick else 'exhaustive_2files_1key_4ts_le1tombstone'] = len(st)
    cases += decorate(st, 4, ctx.seed, 5, 1)
    mb = many_blocks(st, 4, ctx.seed, 7 * 10 ** 6)
    r, st = T.run_family(ctx, f'TSMMerge.CompactB_{tier}.cfg', tag='compactB', timeout=3600)
    cov['exhaustive_2files_1key_3ts_le1tombstone_per_file'] = len(st)
    cases += decorate(st, 3, ctx.seed, 5, 1, base=10 ** 6, rotate_modes=quick)
    mb += many_blocks(st, 3, ctx.seed, 8 * 10 ** 6, every=4 if quick else 1, rotate_modes=quick)
    cov['many_blocks_refinements'] = len(mb)
    cases += mb
    r, st = T.run_family(ctx, f'TSMMerge.CompactKeys_{tier}.cfg', tag='compactkeys', timeout=3600)
    cov['exhaustive_2files_2keys_reduced_slots'] = len(st)
    cases += decorate(st, 3, ctx.seed, 5, 1, base=2 * 10 ** 6, rotate_modes=quick)
    r, st = T.run_family(ctx, f'TSMMerge.Snapshot_{tier}.cfg', tag='snapshot', timeout=3600)
    cov['exhaustive_cache_write_sequences'] = len(st)
    cases += decorate(st, 3, ctx.seed, 5, 1, base=3 * 10 ** 6)
    n3 = 400 if tier == 'quick' else 3000
    # file rolling: > 65535 blocks of one key force ErrMaxBlocksExceeded and a second output file (ppb = 1 only)
    rp = roll_picks(1 if tier == 'quick' else 4)
    rkeys = {json.dumps(p, sort_keys=True) for p in rp}
    gp = regression_picks()
    gkeys = {json.dumps(p, sort_keys=True) for p in gp}
    st = picks_run(ctx, 'MCCompact3', [T.rand_files(ctx.rng, 3, 2, 5) for _ in range(n3)] + rp + gp, 5, 3, 2)
    rolls = [x for x in st if json.dumps(x['c']['files'], sort_keys=True) in rkeys]
    regs = [x for x in st if json.dumps(x['c']['files'], sort_keys=True) in gkeys]
    st = [x for x in st if json.dumps(x['c']['files'], sort_keys=True) not in rkeys | gkeys]
    cases += [dict(x, nts=5, types=T.ALL_TYPES, conc=['small'], modes=MODES, salt=10 ** 7 + i, stretch=5, split=2)
              for i, x in enumerate(regs)]
    cov['known_finding_regression_layouts'] = len(regs)
    cov['sampled_3files_2keys_5ts'] = len(st)
    cases += decorate(st, 5, ctx.seed, 5, 1 if tier == 'quick' else 2, base=4 * 10 ** 6)
    mb3 = many_blocks(st, 5, ctx.seed, 9 * 10 ** 6, every=2, big_every=8)
    cov['many_blocks_refinements'] += len(mb3)
    cases += mb3
    cov['file_rolling_scenarios'] = len(rolls)
    roll = decorate(rolls, 5, ctx.seed, 1, 1, base=6 * 10 ** 6, stretch=17000, only_ppb=1)
    for c in roll:
        c['modes'] = ['full'] if tier == 'quick' else MODES
        c['conc'] = ['small']
    cases += roll
    if tier != 'quick':
        st = picks_run(ctx, 'MCCompact4', [T.rand_files(ctx.rng, 4, 1, 4) for _ in range(1500)], 4, 4, 1)
        cov['sampled_4files_1key_4ts'] = len(st)
        cases += decorate(st, 4, ctx.seed, 5, 2, base=5 * 10 ** 6)
    binary = ctx.go_build('tsmmerge')
    res, lines = ctx.replay(binary, cases, args={'shm': 1}, timeout=7200, case_timeout='1800s')
    ctx.absorb(res, lines)
    rolled = [r for r, c in zip(res, cases) if c.get('stretch') and r.get('ok') and r.get('nontrivial')]
    if len(rolled) == 0 and all(r.get('ok') for r, c in zip(res, cases) if c.get('stretch')):
        raise vlib.Inconclusive('file rolling scenario produced a single output file (vacuous)')
    ctx.exhaustive = False
    ctx.extra_cov.update(cov)
    ctx.extra_cov['exhaustive_parts'] = [k for k in cov if k.startswith('exhaustive')]
    ctx.extra_cov['file_rolling_scenarios_with_several_output_files'] = len(rolled)
    ctx.extra_cov['cases_with_live_batch_tombstones'] = sum(1 for c in cases if c.get('tomb_api') == 'live')
    ctx.extra_cov['many_blocks_refinements_over_12_blocks'] = sum(
        1 for r, c in zip(res, cases) if c.get('split') and r.get('ok') and r.get('nontrivial'))
    if not ctx.extra_cov['many_blocks_refinements_over_12_blocks'] or not ctx.extra_cov['cases_with_live_batch_tombstones']:
        if all(r.get('ok') for r in res):
            raise vlib.Inconclusive('no many-blocks refinement with > 12 overlapping blocks or no live-tombstone case (vacuous)')
    ctx.rule = ('case = one TLC state: input files (oldest first; per key <= 2 ordered disjoint blocks, tombstone ranges per file '
                'and key) or a sequence of cache writes, with the expected content per key and the block-size bound per '
                'points-per-block setting. Exhaustive parts enumerate every input of the stated shape, sampled parts are drawn '
                'with VERIF_SEED and passed to the spec as explicit inputs (NPicks / PickAt). Each file case runs CompactFast and CompactFull for every ppb in '
                '{1,2,3,1000} (in the quick tier the cases of the two larger exhaustive parts alternate between fast and full); each cache case runs WriteSnapshot and NewCacheKeyIterator for every ppb (every input holds one '
                'series per value type, booleans one per bit of the file index; the timestamp concretisation rotates over the cases). '
                'Many-blocks refinements replay a layout with every point stretched and every block cut into 1- or 2-point blocks '
                '(13..20 blocks for the busiest key). Cases with tombstones alternate between TSMReader.DeleteRange before the '
                'store opens the file and the engine\'s batch delete on the store\'s live readers (statistics call while the '
                'tombstones are pending), compacting those same readers. '
                'non-trivial = blocks of the same key in two input files overlap in time, or a tombstone removes a proper part of '
                'a block (files); a timestamp of a key written twice (cache); more than one output file (rolling); more than 12 '
                'overlapping input blocks of one key (many-blocks); distinct by input and refinement.')
    ctx.assumptions += [
        'timestamps lie in [models.MinNanoTime, models.MaxNanoTime]',
        'input blocks of one key in one file are ordered and disjoint (the writer\'s invariant)',
        'block-size bound = max(ppb, largest input block): blocks that already hold >= ppb points are copied undecoded by the '
        'compactor; the bound is exactly ppb whenever every input block respects ppb',
        'optimize compactions are CompactFull with another points-per-block value and are covered by the ppb settings',
        'files are compacted in generation order as one group; tombstones are per file',
        'a cache snapshot is deduplicated (Cache.Deduplicate) before Compactor.WriteSnapshot, as Engine.WriteSnapshot does',
    ]


META = {
    'level': 'model_checking',
    'text': 'TLC enumerates every two-file one-key input over 4 timestamps (quick: without tombstones) and over 3 timestamps with a '
            'tombstone range per file, every two-file two-key input over reduced slot layouts, every short cache write sequence, plus seeded three/four-file inputs; expected content is LWW(inputs) from '
            'the set-algebra contract (invariants: LWW = fold of Merge, the contract is satisfiable by chunking). Every state is '
            'replayed through the real Compactor (fast, full, snapshot) for each points-per-block setting and the decoded output '
            'is compared with the expectation and the well-formedness predicate.',
    'design_ref': '5.2',
    'note': 'Exhaustive parts are small (2 files, <= 2 blocks per key and file, 4 timestamps); larger inputs are sampled by seed; '
            'MaxTSMFileSize rolling is not exercised (2 GB), ErrMaxBlocksExceeded rolling is. Trusted: TLC, the driver\'s '
            'transcription of the WellFormed predicate (checkOutput, 50 lines) and its concretisation.',
    'technique': 'TLA+ spec (TSMMerge.tla, families compact/snapshot) + TLC input enumeration + replay of every state on the real Compactor',
    'quick_s': 150, 'thorough_s': 1500,
}
