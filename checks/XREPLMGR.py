"""XREPLMGR — extension module (not a listed property; deepens C27): the replication durable-queue manager
(replications/internal/queue_management.go durableQueueManager, as used by replications/service.go).

Spec: ReplManager.tla — durable state (tracked replications = the sqlite store, queue directories with segments of batches),
volatile state (the manager map id -> [open, max, SharedCount, request outstanding]); actions InitializeQueue, DeleteQueue,
UpdateMaxQueueSize, EnqueueData, Deliver (the remote accepts), the store halves of the service calls (Track, Untrack, StoreSet),
CloseAll, Crash, Start (new manager + StartReplicationQueues(tracked)).  TLC checks the contract (nothing lost / nothing foreign
across restarts and crashes, exactly the tracked ids open after Start, untracked directories removed and only those, refused
calls change nothing, sizes = disk usage, no batch stranded without a request) over every interleaving of the checking config.

Binding: every generated history is replayed on the real durableQueueManager in a scratch directory (harness/cmd/replmgr): the
config store holds each remote write at a gate until the history delivers; restart = CloseAll + new manager +
StartReplicationQueues, crash = copy of the live directory tree + new manager on the copy; after every step the result class,
the directory entries, the size calls, GetReplications, the pending batches of every queue directory (drained from a copy with
the real durablequeue) and the outstanding requests are compared with the spec's observation."""
import glob
import json
import os
import re
import threading
import time

import tlaval
import vlib

ACTIONS = ['DoInit', 'DoDelete', 'DoUpdate', 'DoEnq', 'DoDeliver', 'DoTrack', 'DoUntrack', 'DoStoreSet', 'DoCloseAll',
           'DoCrash', 'DoStart']
BIG = 1 << 20


def _dump_bodies(path):
    """state bodies (text) of a -dump file"""
    buf = []
    with open(path) as f:
        for line in f:
            if line.startswith('State ') and line.rstrip().endswith(':'):
                if buf:
                    yield ''.join(buf)
                buf = []
            else:
                buf.append(line)
    if buf and ''.join(buf).strip():
        yield ''.join(buf)


_A = re.compile(r'[\[ ]a \|-> "')


def _hist_len(body):
    return len(_A.findall(body))


def _maximal_from_dump(path, maxops):
    """text bodies of the states whose history has MaxOps steps (every shorter history is a prefix of one of them, or ends
    where nothing is enabled); parsing is left to the caller so that sampling comes first"""
    total = 0
    out = []
    for b in _dump_bodies(path):
        total += 1
        if _hist_len(b) == maxops:
            out.append(b)
    return total, out


def _parse(body):
    return tlaval.plain(tlaval.parse_state_body(body))


def _sim_last_states(sim_dir):
    """last state of every behaviour file of a -simulate run (it carries the whole history)"""
    for f in sorted(glob.glob(os.path.join(sim_dir, 'b_*'))):
        text = open(f).read()
        k = -1
        for m in re.finditer(r'^(?:\\\*\s*)?STATE_\d+\s*==\s*$', text, re.M):
            k = m.end()
        if k < 0:
            continue
        try:
            yield _parse(text[k:])
        except Exception as e:  # noqa
            raise vlib.Inconclusive(f'cannot parse simulate file {f}: {e}')


def _key(h):
    return json.dumps([[s['a'], s['id'], s['n'], s['res']] for s in h])


def _is_big(h):
    return any(s['a'] == 'enq' and s['n'] >= BIG for s in h)


def _case(h, ids, tag, n):
    return {'steps': h, 'ids': ids, 'conc': n % 11, 'tag': tag}


def run(ctx):
    tier = ctx.tier
    quick = tier == 'quick'
    ncpu = vlib.NCPU
    w = 2 if ncpu >= 2 else 1           # small models: the JVM start dominates, so several 2-worker runs side by side
    slots = threading.Semaphore(max(1, ncpu // w))
    jobs = {}
    errs = []
    built = {}

    def tlc_job(name, cfg, **kw):
        def f():
            with slots:
                try:
                    jobs[name] = ctx.tlc('ReplManager', cfg, tag=name, workers=w, **kw)
                except Exception as e:  # noqa
                    errs.append(f'{name}: {e}')
        t = threading.Thread(target=f)
        t.start()
        return t

    def build():
        try:
            built['bin'] = ctx.go_build('replmgr')
        except Exception as e:  # noqa
            errs.append(f'build: {e}')
    tb = threading.Thread(target=build)
    tb.start()

    tmo = 900 if quick else 2400
    nsim = 600 if quick else 3000
    depth = 14 if quick else 18
    threads = [
        # the design: contract invariants and action properties over every interleaving (VIEW hides the history); quick uses
        # scaled constants (segment 10 bytes, max sizes 19/20/24, batches of 7) so that two batches already reach segment
        # roll-over and ErrQueueFull; thorough uses the production constants with three batches
        tlc_job('mc', f'ReplManager.MC_{tier}.cfg', timeout=tmo, coverage=True),
        # the contract is sensitive: with run() as found (no pass over the queue when the goroutine starts) TLC must find a
        # queue that holds batches after Start with nothing forwarding them
        tlc_job('lead', 'ReplManager.Lead_strand.cfg', timeout=tmo, count=False),
        # every history of a small configuration
        tlc_job('genx', f'ReplManager.Genx_{tier}.cfg', timeout=tmo, dump=True),
        # every history that starts with two queues holding a batch each, one of them tracked (restart / crash / delete family)
        tlc_job('genrestart', f'ReplManager.Genrestart_{tier}.cfg', timeout=tmo, dump=True),
        # every history of the size configuration (7 MiB batches against max sizes of 20 and 24 MiB)
        tlc_job('gensize', f'ReplManager.Gensize_{tier}.cfg', timeout=tmo, dump=True),
        # random longer behaviours of the full configuration, with and without refused calls
        tlc_job('gen', f'ReplManager.Gen_{tier}.cfg', timeout=tmo, simulate={'num': max(1, nsim // w)}, depth=depth),
        tlc_job('genok', f'ReplManager.Genok_{tier}.cfg', timeout=tmo, simulate={'num': max(1, nsim // w)}, depth=depth + 2),
    ]
    for t in threads:
        t.join()
    tb.join()
    if errs:
        raise vlib.Inconclusive('; '.join(errs))
    for name in ('mc', 'genx', 'genrestart', 'gensize', 'gen', 'genok'):
        r = jobs[name]
        if r.timed_out:
            raise vlib.Inconclusive(f'TLC timed out ({name})')
        if not r.ok:
            raise vlib.Inconclusive(f'TLC did not pass ({name}): violated={r.violated}\n' + '\n'.join(r.stdout.splitlines()[-30:]))
    ctx.check_coverage(jobs['mc'], ACTIONS)
    lead = jobs['lead']
    if lead.timed_out or lead.violated != 'NoStrandedBatch' or not lead.trace:
        raise vlib.Inconclusive(f'ReplManager.Lead_strand.cfg: expected a NoStrandedBatch counterexample, got violated={lead.violated}')
    ctx.extra_cov['model_level_lead_strand'] = {'violates': lead.violated, 'trace_len': len(lead.trace)}
    vlib.log(f'XREPLMGR: TLC done t={time.time()-ctx.t0:.0f}s')

    # ---- histories
    maxops_x = 3 if quick else 4
    maxops_r = 8 if quick else 9
    maxops_s = 7 if quick else 9
    tot_x, max_x = _maximal_from_dump(jobs['genx'].dump_path, maxops_x)
    tot_r, max_r = _maximal_from_dump(jobs['genrestart'].dump_path, maxops_r)
    tot_s, max_s = _maximal_from_dump(jobs['gensize'].dump_path, maxops_s)
    if not max_x or not max_s or not max_r:
        raise vlib.Inconclusive('a generation config produced no maximal history')
    chosen_x = vlib.sample_list(ctx.rng, max_x, 900 if quick else None)
    chosen_r = vlib.sample_list(ctx.rng, max_r, 600 if quick else None)
    ctx.exhaustive = len(chosen_x) == len(max_x) and len(chosen_r) == len(max_r)
    cases = []
    for b in chosen_x:
        st = _parse(b)
        cases.append(_case(st['hist'], ['r1', 'r2'], 'genx', len(cases)))
    for b in chosen_r:
        st = _parse(b)
        cases.append(_case(st['hist'], ['r1', 'r2'], 'genrestart', len(cases)))
    # size histories: keep those in which the limit matters (a refused write), prefer the ones where the limit was changed
    # by UpdateMaxQueueSize or re-read from the store by a restart before it mattered
    size_all = []
    for b in max_s:
        if '"full"' in b:
            size_all.append(b)
    ctx.rng.shuffle(size_all)
    budget_s = 70 if quick else 400
    size_cases = []
    n_upd = n_start = 0
    for b in size_all:
        if len(size_cases) >= budget_s:
            break
        st = _parse(b)
        h = st['hist']
        acts = [s['a'] for s in h]
        first_full = next(i for i, s in enumerate(h) if s['res'] == 'full')
        upd = any(s['a'] == 'update' for s in h)
        rst = 'start' in acts
        # quota: a third each for histories with an update / a restart, the rest free
        if upd and not rst and n_upd >= budget_s // 2:
            continue
        size_cases.append(_case(h, ['r1'], 'gensize', len(size_cases)))
        n_upd += upd
        n_start += rst
        del first_full
    if not size_cases:
        raise vlib.Inconclusive('the size configuration produced no history with a refused write')
    seen = set(_key(c['steps']) for c in cases)
    nsimh = {'gen': 0, 'genok': 0}
    big_budget = 40 if quick else 300
    nbig = 0
    ids_full = ['r1', 'r2'] if quick else ['r1', 'r2', 'r3']
    for name in ('gen', 'genok'):
        for st in _sim_last_states(jobs[name].sim_dir):
            h = st['hist']
            if len(h) < 5:
                continue
            k = _key(h)
            if k in seen:
                continue
            if _is_big(h):
                if nbig >= big_budget:
                    continue
                nbig += 1
            seen.add(k)
            nsimh[name] += 1
            cases.append(_case(h, ids_full, name, len(cases)))
    small = [c for c in cases if not _is_big(c['steps'])]
    bigs = [c for c in cases if _is_big(c['steps'])] + size_cases
    ctx.rng.shuffle(small)
    ctx.rng.shuffle(bigs)
    vlib.log(f'XREPLMGR: {len(max_x)} exhaustive histories ({len(chosen_x)} chosen), {len(max_r)} restart-family histories '
             f'({len(chosen_r)} chosen), {len(size_all)} size histories with a refused '
             f'write ({len(size_cases)} chosen), random: {nsimh}; small={len(small)} big={len(bigs)} t={time.time()-ctx.t0:.0f}s')

    # ---- replay on the real code: the histories with 7 MiB batches beside the small ones
    binary = built['bin']
    slow = {}

    def big_job():
        try:
            slow['big'] = ctx.replay(binary, bigs, procs=max(1, min(2, ncpu // 2)), timeout=900 if quick else 3000, case_timeout='300s')
        except Exception as e:  # noqa
            errs.append(f'big replay: {e}')
    tbig = threading.Thread(target=big_job)
    tbig.start()
    time.sleep(0.05)
    res, lines = ctx.replay(binary, small, procs=max(1, ncpu - min(2, ncpu // 2)), timeout=900 if quick else 3000)
    tbig.join()
    if errs:
        raise vlib.Inconclusive('; '.join(errs))
    ctx.absorb(res, lines)
    ctx.absorb(*slow['big'], sample=0)
    vlib.log(f'XREPLMGR: replay done t={time.time()-ctx.t0:.0f}s')

    allc = small + bigs

    def count(pred):
        return sum(1 for c in allc if pred(c['steps']))
    ctx.extra_cov.update({
        'histories_exhaustive_total': len(max_x), 'histories_exhaustive_replayed': len(chosen_x), 'genx_states': tot_x,
        'histories_restart_family_total': len(max_r), 'histories_restart_family_replayed': len(chosen_r), 'genrestart_states': tot_r,
        'histories_size_total': len(max_s), 'histories_size_with_refused_write': len(size_all),
        'histories_size_replayed': len(size_cases), 'gensize_states': tot_s,
        'histories_random_replayed': nsimh,
        'histories_with_7MiB_batches': len(bigs),
        'histories_with_restart': count(lambda h: any(s['a'] == 'closeall' for s in h) and any(s['a'] == 'start' for s in h)),
        'histories_with_crash': count(lambda h: any(s['a'] == 'crash' for s in h)),
        'histories_start_removes_directory': count(lambda h: any(
            s['a'] == 'start' and i > 0 and len(s['exp']['dirs']) < len(h[i - 1]['exp']['dirs']) for i, s in enumerate(h))),
        'histories_start_reopens_pending': count(lambda h: any(
            s['a'] == 'start' and any(s['exp']['pend'][x] for x in s['exp']['open']) for s in h)),
        'histories_start_fails': count(lambda h: any(s['res'] == 'startup' for s in h)),
        'histories_queue_full': count(lambda h: any(s['res'] == 'full' for s in h)),
        'histories_with_delivery': count(lambda h: any(s['a'] == 'deliver' for s in h)),
    })
    # vacuity guard of the replay: the scenarios the contract is about must be among the replayed histories
    need = {'histories_with_restart': 20, 'histories_with_crash': 20, 'histories_start_removes_directory': 20,
            'histories_start_reopens_pending': 20, 'histories_queue_full': 10, 'histories_with_delivery': 20}
    thin = {k: ctx.extra_cov[k] for k, v in need.items() if ctx.extra_cov[k] < v}
    if thin:
        raise vlib.Inconclusive(f'vacuity guard: too few replayed histories of a kind: {thin}')
    ctx.rule = ('every history of 3 (thorough: 4) calls of the small configuration (2 ids, one batch length, max sizes {below minimum, '
                'minimum}); every history of 8 (thorough: 9) calls that starts with init, track, enq, init, enq (two queues holding a '
                'batch, one tracked) without refused calls; both sampled by seed when above budget; histories of the size configuration (1 id, 7 MiB batches, max sizes 20/24 MiB, '
                'update / store / restart / deliver) that contain a refused write; distinct random behaviours (depth 14-20) of the full '
                'configuration (2-3 ids, 100 B and 7 MiB batches, three max sizes, all refused-call classes) and of the same without '
                'refused calls.  After every step: result class, directory entries incl. foreign ones, CurrentQueueSizes / '
                'RemainingQueueSizes per id and jointly, file sizes, GetReplications, pending batches per directory (bytes), '
                'outstanding requests; deliver steps: what the remote received.  non-trivial = a history with a refused call, a Start '
                'that removes or recreates a directory, or a Start that reopens a queue holding batches')
    ctx.assumptions += [
        'the sqlite store is abstract (a map id -> recorded max size kept by the driver); the service order of the two halves of '
        'Create/Delete/Update is modelled as separate steps so that a shutdown or crash can fall between them',
        'the remote holds every request at the config-store gate until the history delivers, then accepts everything; failed '
        'remote writes, back-off and partial drains are C27\'s subject (Replication.tla)',
        'crash = process crash between manager calls: a copy of the directory tree taken while the manager is live (open files, '
        'goroutines waiting at the remote); torn appends are C26\'s subject (DurableQueue.tla / DQBytes.tla)',
        'segment size is the production constant (10 MiB); max queue sizes 20 MiB - 1 (refused), 20 MiB, 24 MiB; batch lengths 100 B '
        'and 7 MiB, byte-exact size accounting in the spec',
        'a request outstanding is waited for up to 30 s where the spec has one (normally < 1 ms); the absence of a request is '
        'checked without waiting',
        'a refused InitializeQueue (max size below 2 segments) leaves an empty directory behind (modelled as found, InitLeavesDir); '
        'not reachable through the API, which requires 32 MiB',
    ]


META = {
    'extra': True,
    'level': 'model_checking',
    'text': 'Extension of the specification to the replication durable-queue manager (deepens C27): TLC checks that after '
            'StartReplicationQueues exactly the tracked replications have an open queue holding exactly the batches enqueued and '
            'not yet delivered before the shutdown or crash, that untracked queue directories are removed and nothing else, that '
            'DeleteQueue removes directory, map entry and goroutine, that refused calls (unknown id, duplicate id, max size below two '
            'segments, queue full) change nothing, that reported sizes equal the disk usage, and that no open queue holds batches '
            'without a request to the remote outstanding; every generated history is replayed on the real durableQueueManager with '
            'restarts and crash images.',
    'design_ref': '5.16',
    'note': 'Trusted: TLC, the gate in the driver\'s config store, the drain of a directory copy by the real durablequeue. '
            'Finding on the unchanged tree: batches left in a queue across a restart were not forwarded until the next local write '
            '(run() waited for a notification); repaired in /repo by one initial pass in run(); Lead_strand.cfg keeps the as-found model.',
    'technique': 'TLA+ spec (ReplManager.tla) + TLC exhaustive/simulation + replay of TLC histories on the real queue manager',
    # measured on the shared 16-core sandbox with VERIF_NCPU=4 while other agents kept the load average at 35-80:
    # quick 190-330 s (TLC start-up dominates; the same run took 144 s at load 20), thorough 540-700 s
    'quick_s': 150, 'thorough_s': 700,
}
