"""C33 — /ready and /health report the true aggregate state, also under concurrent registration, signalling and requests.
Spec: Health.tla (a request = snapshot of the checker list + one evaluation step per checker + render, interleaved
with everything else) and TraceHealth.tla.  Binding, both directions:
  * replay: every sequential TLC history is executed on the real http.HealthReadyHandler with real check.ReadyGate
    latches, the real StartupProgressLogger ("shards") and SchedulerPulseCheck ("task-scheduler"); after every step both
    endpoints are requested and status code, listed gates / top-level message are compared with the specification;
  * trace validation: goroutines hammer one real handler (register / Ready / Unready / shard progress / health changes /
    requests); the call/ret log is accepted only if TLC finds an interleaving of Health.tla's actions that explains every
    logged response."""
import importlib.util
import json
import os
import re
import threading
from concurrent.futures import ThreadPoolExecutor

import vlib

_here = os.path.dirname(os.path.abspath(__file__))
_spec = importlib.util.spec_from_file_location('check_C18_shared', os.path.join(_here, 'C18.py'))
_c18 = importlib.util.module_from_spec(_spec)
_spec.loader.exec_module(_c18)

RANK = ['aa', 'bolt', 'engine', 'mm', 'query', 'shards', 'task-scheduler', 'zz']   # NameRank of Health.tla


def cfg_sets(ctx, cfgfile):
    text = open(os.path.join(ctx.spec_dir, cfgfile)).read()
    out = {}
    for k in ('Gates', 'Prog', 'HGen', 'HPulse', 'HShards'):
        m = re.search(r'(?m)^\s*' + k + r' = \{(.*)\}\s*$', text)
        out[k] = [x.strip().strip('"') for x in m.group(1).split(',') if x.strip()]
    out['MaxOps'] = int(re.search(r'(?m)^\s*MaxOps = (\d+)', text).group(1))
    return out


def run(ctx):
    quick = ctx.tier == 'quick'
    tier = ctx.tier
    if getattr(ctx, 'replay_path', None):
        saved = json.load(open(ctx.replay_path))
        if 'trace' not in saved['case']:
            return _c18.replay_saved(ctx, 'health')
        # a stored trace: validate it again (it was recorded from the tree of that time; nothing is re-executed)
        out = ctx.tmp('replay/trace.ndjson')
        with open(out, 'w') as f:
            for e in saved['case']['trace']:
                f.write(json.dumps(e) + '\n')
        ok, r = ctx.validate_trace('TraceHealth', 'TraceHealth.cfg', out, timeout=1700)
        ctx.traces_validated += 1
        if not ok:
            ctx.divergences.append({'case': saved['case'], 'result': {'msg': 'stored trace is rejected by TraceHealth.tla', 'patterns': []}})
        return
    binary = ctx.go_build('health')

    # 1. the concurrent design: contract invariants over all interleavings of two requests with everything else
    def mc():
        r = ctx.tlc_must_pass('Health', f'Health.MC_{tier}.cfg', timeout=3000, coverage=True, workers=min(4, vlib.NCPU), tag='mc', count=False)
        acts = ['RegisterReady', 'RegisterHealth', 'Signal', 'Unsignal', 'SetHealth', 'ReqStart', 'ReqEval', 'ReqFinish']
        if not quick:
            acts.append('Progress')
        ctx.check_coverage(r, acts)

    # 2. sequential histories -> replay
    lock = threading.Lock()
    totals = {}
    sampled = []

    def gen(prereg):
        cfgfile = f'Health.Gen_{tier}.cfg'
        sets = cfg_sets(ctx, cfgfile)
        cfg = _c18.cfg_from_template(ctx, cfgfile, {'PreReg': prereg})
        g = ctx.tlc_must_pass('Health', cfg, timeout=3000, dump=True, workers=min(4, vlib.NCPU), tag=f'gen-prereg{int(prereg)}', count=False)
        hs = list(_c18.iter_histories(g.dump_path, sets['MaxOps']))
        os.remove(g.dump_path)
        total = len(hs)
        if total == 0:
            raise vlib.Inconclusive('no sequential histories generated')
        hs = vlib.sample_list(ctx.rng, hs, 20000 if quick else 50000)
        ready = sorted(sets['Gates'] + sets['Prog'], key=RANK.index, reverse=True)
        health = sorted(sets['HGen'] + sets['HPulse'] + sets['HShards'], key=RANK.index, reverse=True)
        cases = [{'mode': 'replay', 'gates': sets['Gates'], 'gens': sets['HGen'], 'preR': ready if prereg else [],
                  'preH': health if prereg else [], 'steps': h} for h in hs]
        save = os.environ.get('VERIF_SAVE_CASES')   # debugging aid
        if save:
            os.makedirs(save, exist_ok=True)
            with open(os.path.join(save, f'C33-prereg{int(prereg)}.ndjson'), 'w') as f:
                for c in cases:
                    f.write(json.dumps(c, separators=(',', ':')) + '\n')
        with lock:
            totals[f'sequential/prereg={prereg}'] = {'histories': total, 'replayed': len(cases)}
            if len(cases) < total:
                sampled.append(prereg)
            res, lines = ctx.replay(binary, cases, procs=min(8, vlib.NCPU), timeout=3000)
            ctx.absorb(res, lines)

    # 3. concurrent traces -> TraceHealth
    nfiles, ntraces = (1, 16) if quick else (4, 40)
    tstats = {'traces': 0, 'lines': 0, 'overlapping_calls': 0, 'accepted': 0}

    def traces(k):
        out = ctx.tmp(f'trace{k}/trace.ndjson')
        case = {'mode': 'record', 'gates': ['bolt', 'engine', 'query'], 'gens': ['aa', 'mm', 'zz'], 'seed': ctx.seed * 1000 + k,
                'threads': 4, 'ops': 10, 'traces': ntraces, 'out': out, 'prog': True, 'pulse': True, 'hshards': True}
        with lock:
            res, _ = ctx.replay(binary, [case], procs=1, timeout=600)
        if not res[0].get('ok'):
            raise vlib.Inconclusive('recorder failed: ' + str(res[0].get('msg')))
        ex = res[0].get('extra') or {}
        # same mechanics as ctx.validate_trace (workers 1, StateDeque, POSTCONDITION), with a tag of its own so that
        # validations running side by side do not share a work directory
        r = ctx.tlc('TraceHealth', 'TraceHealth.cfg', workers=1, timeout=3000, extra_files={'trace.ndjson': out}, dfs=True,
                    tag=f'trace{k}', count=False)
        if r.timed_out:
            raise vlib.Inconclusive('trace validation timed out')
        if not r.ok and not r.violated and 'postcondition' not in r.stdout.lower():
            raise vlib.Inconclusive('trace validation failed to run:\n' + '\n'.join(r.stdout.splitlines()[-30:]))
        m = re.search(r'@@HW (\d+) of (\d+)', r.stdout)
        r.hw = (int(m.group(1)), int(m.group(2))) if m else None
        ok = r.ok
        with lock:
            tstats['traces'] += ntraces
            tstats['lines'] += ex.get('lines', 0)
            tstats['overlapping_calls'] += ex.get('overlapping_calls', 0)
            if ok:
                tstats['accepted'] += ntraces
                ctx.traces_validated += ntraces
                ctx.evaluations += ex.get('lines', 0) // 2
                lines = open(out).read().splitlines()
                if len(ctx.samples) < 4:
                    ctx.samples.append({'trace_excerpt': [json.loads(x) for x in lines[:12]]})
                for i in range(ntraces):
                    ctx.nontrivial_sigs.add(f'trace-{ctx.seed}-{k}-{i}')
            else:
                # the trace containing the first line TLC could not get past
                lines = open(out).read().splitlines()
                hw = r.hw[0] if getattr(r, 'hw', None) else 0
                a = b = hw
                while a > 0 and '"reset"' not in lines[a - 1]:
                    a -= 1
                while b < len(lines) and '"reset"' not in lines[b]:
                    b += 1
                msg = (f'recorded trace is not a behaviour of Health.tla: TLC consumed {hw} of {len(lines)} lines; the line it '
                       f'cannot explain is {lines[hw] if hw < len(lines) else "?"} (violated: {r.violated})')
                ctx.traces_validated += 1
                ctx.divergences.append({'case': {'trace': [json.loads(x) for x in lines[a:b]], 'stuck_at_line_of_trace': hw - a},
                                        'result': {'msg': msg, 'patterns': [], 'step': hw - a}})

    jobs = [mc, lambda: gen(True), lambda: gen(False)] + [(lambda k=k: traces(k)) for k in range(nfiles)]
    errs = []
    with ThreadPoolExecutor(max_workers=max(1, vlib.NCPU // 4)) as ex:
        for f in [ex.submit(j) for j in jobs]:
            try:
                f.result()
            except vlib.Inconclusive as e:
                errs.append(str(e))
    ctx.states = sum(r['distinct'] for r in ctx.tlc_runs)
    ctx.transitions = sum(r['generated'] for r in ctx.tlc_runs)
    if errs and not ctx.divergences:
        raise vlib.Inconclusive(' | '.join(errs)[:3000])
    ctx.infra += [e[:500] for e in errs]      # a divergence already found is reported even if another job failed
    ctx.exhaustive = not sampled
    if tstats['overlapping_calls'] == 0:
        raise vlib.Inconclusive('recorded traces contain no overlapping operations: nothing concurrent was observed')
    ctx.extra_cov['sequential'] = totals
    ctx.extra_cov['concurrent_traces'] = tstats
    ctx.rule = ('sequential: every TLC history of MaxOps state changes (register / Ready / Unready / shard progress / health '
                'change), both endpoints requested and compared after every step; non-trivial = some gate not ready or >= 2 '
                'failing health checks.  concurrent: traces of 4 goroutines x 10 random operations on one real handler, each '
                'accepted by TraceHealth.tla (every trace counts; overlapping operations are counted in the evidence)')
    ctx.assumptions += [
        'checkers return pass or fail only (H9: any other status is outside the property\'s input space)',
        'checker responses are values (BasicResponse); stateful responses (FreshnessResponse) re-read at render time are not modelled',
        'log order = real-time order: call/ret lines are appended under one mutex, call before and ret after the operation',
        'a first failing check with an empty message renders as "fail" (code); HEALTH_READY.md words it differently, the property names only the first failing check',
    ]


META = {
    'level': 'model_checking',
    'text': 'TLC checks the readiness/health contract over all interleavings of two non-atomic requests with registration, '
            'signalling and health changes; sequential histories are replayed on the real handler and concurrently recorded '
            'call/ret traces of the real handler are validated against the specification.',
    'design_ref': '5.20',
    'note': 'Trusted: TLC, the recorder\'s mutex-ordered call/ret log, the message-to-token table of the driver (20 lines).',
    'technique': 'TLA+ spec (Health.tla, TraceHealth.tla) + TLC exhaustive + replay + trace validation of the real handler',
    'quick_s': 120, 'thorough_s': 900,
}
