"""C13 - series ids are unique, stable and never reused (tsdb.SeriesFile).  Spec: SeriesFile.tla.
TLC checks the design (per-partition log of Insert/Tombstone entries in segments, index snapshot written by a two-phase
compactor, volatile seq/maps, crash with a torn in-flight create) against StableID / Injective / NeverReused /
CrashPreservesCreated; every generated history is replayed on a real tsdb.SeriesFile under several concretisations; a
crashcreate step is refined into every zero-fill offset of the first non-durable entry (segments are preallocated)."""
import json
import vlib

ACTIONS = ['CreateList', 'Delete', 'SegmentRoll', 'DeleteRoll', 'CrashRoll', 'CompactBegin', 'CompactEnd', 'Reopen', 'CrashCreate']
ROLLS = ('roll', 'deleteroll', 'crashroll')
GEN_ACTIONS = ['CreateList', 'Delete', 'SegmentRoll', 'CompactAtomic', 'Reopen', 'CrashCreate']
BASE = {'pa': 0, 'pb': 7, 'ka': ['a', 'b'], 'kb': ['c']}


def concretise(rng, hist, tier, counters):
    acts = [s['a'] for s in hist]
    c = dict(BASE)
    c['steps'] = hist
    c['conc'] = rng.randrange(40)
    c['prefill'] = rng.choice([{}, {'7': 32}, {'7': 32}, {'7': 31}, {'0': 3, '7': 33}, {'0': 31, '7': 34}])
    c['bg'] = rng.random() < 0.25
    c['images'] = rng.random() < (0.1 if tier == 'quick' else 0.4)
    if 'delete' in acts:
        c['images'] = True    # a delete must be durable: look at the disk right after it
    c['sweep'] = False
    c['sweepSample'] = 6 if tier == 'quick' else 40
    has_roll = any(a in ROLLS for a in acts)
    if 'crashcreate' in acts and not has_roll and counters['sweep'] < counters['sweep_budget']:
        counters['sweep'] += 1
        c['sweep'] = True
    if has_roll:
        counters['roll'] += 1
        if counters['roll'] > counters['roll_budget']:
            return None
        c['images'] = False   # a rolled segment holds 4 MiB of real data: keep those cases cheap
    return c


def run(ctx):
    tier = ctx.tier
    quick = tier == 'quick'
    # 1. the design against the contract, all interleavings incl. the compactor's two critical sections (VIEW hides hist)
    r = ctx.tlc_must_pass('SeriesFile', f'SeriesFile.MC_{tier}.cfg', timeout=1500, coverage=True)
    ctx.check_coverage(r, ACTIONS)
    # 2. F7 at model level: with recovery as found (zero-length key accepted) a torn entry that kept 7 id bytes repoints a
    #    live id; with "empty key ends the log" the same configuration is clean.  A lead only - the sweep on the real
    #    code (step 4/5) decides.
    lead = ctx.tlc('SeriesFile', 'SeriesFile.F7_asfound.cfg', timeout=300)
    rep = ctx.tlc('SeriesFile', 'SeriesFile.F7_repaired.cfg', timeout=300)
    if lead.timed_out or rep.timed_out or lead.violated != 'Agree' or not rep.ok:
        raise vlib.Inconclusive(f'F7 model-level configs behave unexpectedly: asfound violated={lead.violated} repaired ok={rep.ok}')
    ctx.extra_cov['model_level_lead_F7'] = {'as_found_violates': lead.violated, 'with_empty_key_ends_log': 'clean',
                                            'trace_len': len(lead.trace)}
    # 3. histories: every history up to the bound (dump) + longer random ones (simulate)
    g = ctx.tlc_must_pass('SeriesFile', f'SeriesFile.Gen_{tier}.cfg', timeout=1500, dump=True, coverage=True)
    ctx.check_coverage(g, GEN_ACTIONS)
    maxops = 2 if quick else 3
    hists = []
    for st in ctx.dump_states(g):
        if len(st['hist']) == maxops:
            hists.append(st['hist'])
    total_exh = len(hists)
    sim = ctx.tlc('SeriesFile', 'SeriesFile.Sim.cfg', timeout=900, simulate={'num': 120 if quick else 3000}, depth=9)
    if sim.timed_out or not sim.ok:
        raise vlib.Inconclusive('simulation run failed: ' + sim.stdout[-1500:])
    seen = set()
    simh = []
    for b in ctx.sim_behaviours(sim):
        h = b[-1]['hist']
        key = json.dumps(h, sort_keys=True)
        if h and key not in seen:
            seen.add(key)
            simh.append(h)
    budget_exh = 250 if quick else 1800
    chosen = vlib.sample_list(ctx.rng, hists, budget_exh)
    ctx.exhaustive = len(chosen) == total_exh
    counters = {'roll': 0, 'roll_budget': 4 if quick else 24, 'sweep': 0, 'sweep_budget': 40 if quick else 400}
    cases = []
    dropped_roll = 0
    order = chosen + simh
    ctx.rng.shuffle(order)
    for h in order:
        c = concretise(ctx.rng, h, tier, counters)
        if c is None:
            dropped_roll += 1
            continue
        cases.append(c)
    # 3b. a fixed, un-sampled handful of roll-over histories (seed C13-1): the newest segment holds only a tombstone
    #     (deleteroll) or nothing (crashroll) when the file is opened again, then a create must get a fresh id
    gr = ctx.tlc_must_pass('SeriesFile', 'SeriesFile.Roll.cfg', timeout=900, dump=True)
    byk = {}
    for st in ctx.dump_states(gr):
        h = st['hist']
        if len(h) != 4:
            continue
        acts = [x['a'] for x in h]
        for i, a in enumerate(acts):
            if a in ROLLS and 'create' in acts[i + 1:] and (a == 'crashroll' or 'reopen' in acts[i + 1:]):
                j = i + 1 + acts[i + 1:].index('create')
                if a == 'crashroll' or 'reopen' in acts[i + 1:j]:
                    byk.setdefault(a, []).append(h)
                break
    fixed = []
    for a in ROLLS:
        hs = sorted(byk.get(a, []), key=lambda h: json.dumps(h, sort_keys=True))
        if not hs:
            raise vlib.Inconclusive(f'no roll-over history of kind {a} in SeriesFile.Roll.cfg')
        step = max(1, len(hs) // 4)
        for n, h in enumerate(hs[::step][:4]):
            fixed.append({'pa': 7, 'pb': 7, 'ka': ['a', 'b'], 'kb': [], 'steps': h, 'conc': ctx.rng.randrange(40),
                          'prefill': {} if n % 2 else {'7': 2}, 'bg': False, 'images': False, 'sweep': False})
    cases += fixed
    ctx.extra_cov['rollover_histories_fixed'] = len(fixed)
    # 4. zero-fill sweeps with ids around 0x100 (and 0x10000 in the thorough tier): the torn id bytes of the in-flight id
    #    spell the id of an existing series of partition 7 (ids of partition 7 are the multiples of 8)
    probes = []
    for i, n7 in enumerate([32, 33, 34, 40] if quick else [32, 33, 34, 35, 40, 63, 64, 65, 8191, 8192, 8200]):
        for st in range(2 if quick else 5):
            probes.append({'probe': True, 'pa': 7, 'pb': 7, 'ka': ['a'], 'kb': [], 'prefill': {'7': n7},
                           'sweepSample': 8 if quick else 400, 'conc': ctx.rng.randrange(5) + 5 * st + i})
    binary = ctx.go_build('seriesfile')
    res, lines = ctx.replay(binary, cases + probes, timeout=2400, case_timeout='300s', procs=vlib.NCPU,
                            env_extra={'GOMAXPROCS': '2'})
    ctx.absorb(res, lines)
    ctx.extra_cov.update({
        'histories_exhaustive_total': total_exh, 'histories_exhaustive_replayed': len(chosen),
        'histories_simulated_distinct': len(simh), 'roll_histories_dropped_over_budget': dropped_roll,
        'zero_fill_probe_cases': len(probes),
        'crash_images_opened': sum(int((r.get('extra') or {}).get('images', 0)) for r in res),
    })
    ctx.rule = ('exhaustive part: every TLC history of length MaxOps over create(batch<=2 of 3 keys, duplicates allowed)/delete/'
                'roll/compact/reopen/crashcreate(cut per partition, torn form) on 2 partitions (sampled by seed above the budget); '
                'plus distinct -simulate histories of depth <= 9; each replayed under a seeded concretisation (5 key styles, '
                'prefill so that ids straddle 0x100, clean or process-crash reopen, background compactions, crash image after '
                'every step, byte-granular zero-fill sweep at crashcreate). non-trivial = history with a batch of >= 2 keys, a '
                're-create after delete, a roll, or a compaction/reopen/crash after the first step')
    ctx.assumptions += [
        'crash model: a torn segment append persists a prefix of the bytes of the in-flight entries, the rest of the preallocated '
        'segment still reads as zeros; acknowledged (flushed+fsynced) entries are stable; index file is replaced atomically by rename',
        'in replay the index compaction runs atomically between operations (exported SeriesPartitionCompactor) or in the background '
        'via CompactThreshold=1; the interleavings of its two critical sections with create/delete are explored by TLC only',
        'segment roll-over is provoked by filling the active 4 MiB segment with filler series (60 kB keys) up to < 9 free bytes; at most one roll per history',
    ]


META = {
    'level': 'model_checking',
    'text': 'TLC checks the series-file design (partitioned append-only log, index snapshot by a two-phase compactor, volatile '
            'sequence and maps, torn in-flight create) against StableID/Injective/NeverReused/CrashPreservesCreated for all '
            'interleavings up to the bound; every TLC history is replayed on the real tsdb.SeriesFile with reopen, forced index '
            'compaction, segment roll, process-crash images and a byte-granular zero-fill sweep of torn segment entries.',
    'design_ref': '5.7',
    'note': 'Trusted: TLC, the driver\'s relational id comparison (bijection spec id <-> real id, freshness against every id ever '
            'exposed), the zero-fill crash model. Corruption of the mmap\'d index file other than a missing/old snapshot is not modelled.',
    'technique': 'TLA+ spec (SeriesFile.tla) + TLC exhaustive/simulate + replay on the real series file + zero-fill torn-entry sweep',
    'quick_s': 150, 'thorough_s': 1500,
}
