"""XKVINDEX -- the generic secondary index of the kv layer (extra module, not tied to one listed property; deepens C30, whose
anchors include kv/index.go).  Spec: KVIndex.tla.  The two buckets are modelled as the code keeps them (source: primary key ->
record with its foreign key; index: entries fk "/" pk -> pk, present only after IndexMigration.Up); Apply(S, op, atomic) is the
transition function of the writers (source Put / Delete with or without the matching Index.Insert / Delete, in one update
transaction that may fail at the end), Index.Insert / Delete alone, IndexMigration.Up / Populate (with and without cleanup) /
Down, enabling the read path, Walk and Verify, for a store that rolls failed transactions back (bolt) and for one that does not
(inmem).  A second instance ties the primary key to the foreign key and takes tenant's CreateURM / DeleteUserResourceMapping /
ListURMs as writers and reader (user-resource mappings indexed by user).

TLC: (a) the contract -- a failed transaction changes nothing, operations touch the named entries only, Insert / Delete /
Populate are idempotent, after Populate nothing is missing (with cleanup: index = projection of the source) and the writers that
maintain the index keep it so, Walk never hands out a deleted record, visits nothing without the read path and exactly the
records of the foreign key on a complete index, Verify reports the symmetric difference -- holds for clients that never give a
primary key another foreign key, on a transactional store (two configurations: free keys incl. keys with the separator inside /
the URM instance);  (b) leads: with a primary key changing its foreign key, and on the in-memory store, the contract is
violated on the model; the counterexamples are replayed on the real code and must reproduce there with their known-finding
predicate (otherwise the spec is wrong about the code: exit 2).
Binding: generation runs of the model AS THE CODE BEHAVES: one witness history per distinct state of the two buckets plus one
probe per (state, operation) -- every operation of the model in every reached state, with the outcome for both store kinds --,
and random behaviours (failed and idle operations included), replayed on the real kv.Index / kv.IndexMigration over inmem and
bolt stores with real transactions, and on the real tenant.Service / tenant.Store; after every step the driver compares error
class, both raw buckets, Walk per foreign key, the tenant listings (by user = index path, unfiltered and by resource = scan
path) and Verify / IndexDiff with the spec."""
import json
import os
import random
import re
import time
from concurrent.futures import ThreadPoolExecutor

import vlib

SPEC = 'KVIndex'
# (cfg, invariant TLC must find violated, known-finding pattern the real code must show, store kind to replay on)
LEADS = [('KVIndex.Lead_verify.cfg', 'InvP_Verify', 'stale_index_entry_invisible', None),
         ('KVIndex.Lead_walk.cfg', 'InvP_Walk', 'stale_index_entry_invisible', None),
         ('KVIndex.Lead_cleanup.cfg', 'Inv_Synced', 'stale_index_entry_invisible', None),
         ('KVIndex.Lead_inmem.cfg', 'InvP_Tx', 'inmem_failed_tx_keeps_writes', 'inmem')]
STEP_ACTIONS = {'kv': ['put', 'del', 'ins', 'rem', 'pop', 'up', 'down', 'enable'], 'urm': ['put', 'del', 'ins', 'rem', 'pop', 'up', 'down']}
PROBE_ACTIONS = {'kv': ['put', 'del', 'ins', 'rem', 'pop', 'up', 'down', 'enable', 'walk', 'verify'],
                 'urm': ['put', 'del', 'ins', 'rem', 'pop', 'up', 'down', 'walk', 'verify']}
ERR_CLASSES = ['ok', 'nobucket', 'invalid', 'aborted', 'exists', 'notfound']
MC_ACTIONS = {'kv': ['Put', 'Del', 'Ins', 'Rem', 'Pop', 'Up', 'Down', 'Enable'], 'urm': ['Put', 'Del', 'Ins', 'Rem', 'Pop', 'Up', 'Down']}


def squeeze(text):
    return ' '.join(text.split())


def split_state(body):
    """'/\\ a = ...\\n/\\ b = ...' -> {name: raw TLA text}"""
    out = {}
    for part in ('\n' + body).split('\n/\\ ')[1:]:
        name, _, rest = part.partition(' = ')
        out[name.strip()] = rest
    return out


def iter_raw_states(path):
    buf = []
    with open(path) as f:
        for line in f:
            if line.startswith('State ') and line.rstrip().endswith(':'):
                if buf:
                    yield split_state(''.join(buf))
                buf = []
            else:
                buf.append(line)
    if buf and ''.join(buf).strip():
        yield split_state(''.join(buf))


def read_generation(rng, dump_path, probe_budget):
    """nodes: key -> witness history text; probes grouped by node key (sampled by seed when above budget)."""
    nodes, probes = {}, {}
    nprobes = 0
    for st in iter_raw_states(dump_path):
        key = '|'.join(squeeze(st[v]) for v in ('src', 'idx', 'mig', 'rd'))
        leaf = squeeze(st['leaf'])
        if leaf == '<<>>':
            nodes[key] = squeeze(st['hist'])
        else:
            probes.setdefault(key, []).append(leaf)
            nprobes += 1
    missing = [k for k in probes if k not in nodes]
    if missing:
        raise vlib.Inconclusive(f'{len(missing)} probe state(s) without their node in the dump')
    chosen = nprobes
    if probe_budget and nprobes > probe_budget:
        keep = set(rng.sample(range(nprobes), probe_budget))
        i = 0
        for k in sorted(probes):
            sel = []
            for p in probes[k]:
                if i in keep:
                    sel.append(p)
                i += 1
            probes[k] = sel
        chosen = probe_budget
    return nodes, probes, nprobes, chosen


def to_tla(v):
    """parsed TLC value (lib/tlaval, not flattened) -> TLA+ text"""
    if isinstance(v, bool):
        return 'TRUE' if v else 'FALSE'
    if isinstance(v, int):
        return str(v)
    if isinstance(v, str):
        return '"' + v.replace('\\', '\\\\').replace('"', '\\"') + '"'
    if isinstance(v, list):
        return '<<' + ', '.join(to_tla(x) for x in v) + '>>'
    if isinstance(v, dict):
        if '#set' in v and len(v) == 1:
            return '{' + ', '.join(to_tla(x) for x in v['#set']) + '}'
        return '[' + ', '.join(f'{k} |-> {to_tla(x)}' for k, x in v.items()) + ']'
    raise vlib.Inconclusive(f'cannot print TLC value {v!r}')


def cfg_constant(ctx, cfg, name):
    text = open(os.path.join(ctx.spec_dir, cfg)).read()
    m = re.search(r'(?m)^\s*' + name + r' = (.*)$', text)
    return m.group(1).strip() if m else None


def level_of(ctx, cfg):
    return 'urm' if cfg_constant(ctx, cfg, 'Urm') == 'TRUE' else 'kv'


def replay_saved(ctx):
    with open(ctx.replay_path) as f:
        saved = json.load(f)
    ctx.seed = int(saved.get('seed', ctx.seed))
    binary = ctx.go_build('kvindex')
    res, lines = ctx.replay(binary, [saved['case']], procs=1, timeout=600)
    ctx.absorb(res, lines)
    ctx.states = ctx.transitions = 1
    ctx.rule = 'replay of one stored case'


def run(ctx):
    if getattr(ctx, 'replay_path', None):
        return replay_saved(ctx)
    tier = ctx.tier
    quick = tier == 'quick'
    sc = float(os.environ.get('VERIF_TIMEOUT_SCALE', '1') or '1')   # development on an overloaded machine only
    ncpu = max(1, min(4, vlib.NCPU))
    binary = ctx.go_build('kvindex')

    # ---- 1. the contract holds on the intended use (two configurations)
    def mc(cfg):
        r = ctx.tlc_must_pass(SPEC, cfg, timeout=sc * (600 if quick else 2400), workers=1 if quick else 2, heap='3g', coverage=True,
                              tag='mc-' + cfg.split('.')[1])
        ctx.check_coverage(r, MC_ACTIONS[level_of(ctx, cfg)])
        return r

    # ---- 2. leads
    def lead(item):
        cfg, inv, pattern, store = item
        r = ctx.tlc(SPEC, cfg, timeout=sc * 300, workers=1, heap='1g', tag='lead-' + cfg.split('.')[1])
        if r.timed_out:
            raise vlib.Inconclusive(f'TLC timed out on {cfg}')
        if r.violated != inv or not r.trace:
            raise vlib.Inconclusive(f'{cfg}: TLC no longer finds {inv} violated (violated={r.violated}); the spec and the known finding '
                                    f'{pattern} are out of step\n' + r.stdout[-1500:])
        states = [s for _, s in r.trace]
        last = states[-1]
        if last.get('leaf'):
            case = {'hist': to_tla(states[-2]['hist']), 'probes': [to_tla(last['leaf'])]}
        else:
            case = {'hist': to_tla(last['hist']), 'probes': []}
        atomic = cfg_constant(ctx, cfg, 'Atomic') == 'TRUE'
        cases = []
        for k in range(6):
            st = store or ('bolt' if k == 3 else 'inmem')
            if not store and st == 'inmem' and atomic and 'ab |-> TRUE' in case['hist'] + ''.join(case['probes']):
                st = 'bolt'
            cases.append(dict(case, level=level_of(ctx, cfg), store=st, mainAtomic=atomic, conc=k, lead=pattern))
        return cfg, pattern, len(r.trace), cases

    # ---- 3. generation
    def gen(cfg, budget):
        # one worker: strict breadth-first order, so that every state is first reached with the fewest operations and the set
        # of nodes does not depend on the scheduling of TLC's worker threads
        g = ctx.tlc_must_pass(SPEC, cfg, timeout=sc * (600 if quick else 2400), workers=1, heap='3g', dump=True, tag='gen-' + cfg.split('.')[1])
        nodes, probes, total, chosen = read_generation(random.Random(f'{ctx.seed}/{cfg}'), g.dump_path, budget)
        os.remove(g.dump_path)
        level = level_of(ctx, cfg)
        share = 8 if level == 'kv' else 16
        off = ctx.seed % share
        cases = []
        for i, k in enumerate(sorted(nodes)):
            cases.append({'hist': nodes[k], 'probes': probes.get(k, []), 'level': level, 'store': 'bolt' if i % share == off else 'inmem',
                          'mainAtomic': True, 'conc': i, 'lead': ''})
        return cfg, cases, {'nodes': len(nodes), 'probes': total, 'probes_replayed': chosen, 'level': level}

    # ---- 4. simulation (Atomic set to the store kind the behaviours are replayed on)
    def sim(cfg, atomic, num, depth):
        text = open(os.path.join(ctx.spec_dir, cfg)).read()
        text = re.sub(r'(?m)^(\s*Atomic = )\w+', r'\g<1>' + ('TRUE' if atomic else 'FALSE'), text)
        text = re.sub(r'(?m)^(\s*MaxOps = )\d+', r'\g<1>' + str(depth), text)
        tag = 'sim-' + cfg.split('.')[1] + ('-bolt' if atomic else '-inmem')
        r = ctx.tlc(SPEC, text + '\n', timeout=sc * (600 if quick else 1800), workers=1, heap='2g', simulate={'num': num}, depth=depth + 1, tag=tag)
        if r.timed_out or not r.ok:
            raise vlib.Inconclusive('simulation run failed: ' + r.stdout[-1500:])
        cases = []
        level = level_of(ctx, cfg)
        seen = set()
        for i, fn in enumerate(sorted(os.listdir(r.sim_dir))):
            text = open(os.path.join(r.sim_dir, fn)).read()
            if text.rfind('/\\ hist = ') < 0:
                continue
            body = split_state(text[text.rfind('\nSTATE_'):].split('==', 1)[1])
            h = squeeze(body['hist'])
            if h != '<<>>' and h not in seen:
                seen.add(h)
                cases.append({'hist': h, 'probes': [], 'level': level, 'store': 'bolt' if atomic else 'inmem', 'mainAtomic': atomic,
                              'conc': 1000 + i, 'lead': ''})
        if not cases:
            raise vlib.Inconclusive('simulation produced no behaviours')
        return cases

    errs = []
    with ThreadPoolExecutor(max_workers=ncpu if quick else 2) as ex:      # (thorough: the two MC runs have two workers each)
        f_mc = [ex.submit(mc, f'KVIndex.MC_{tier}.cfg'), ex.submit(mc, f'KVIndex.MCurm_{tier}.cfg')]
        f_lead = [ex.submit(lead, item) for item in LEADS]
        mcs, lead_res = [], []
        for f in f_mc:
            try:
                mcs.append(f.result())
            except vlib.Inconclusive as e:
                errs.append(str(e))
        for f in f_lead:
            try:
                lead_res.append(f.result())
            except vlib.Inconclusive as e:
                errs.append(str(e))
    if errs:
        raise vlib.Inconclusive(' | '.join(errs)[:3000])
    vlib.log(f'XKVINDEX: model checking and leads done t={time.time()-ctx.t0:.0f}s')
    leads = {}
    for cfg, pattern, tlen, lcases in lead_res:
        lres, llines = ctx.replay(binary, lcases, procs=2, timeout=sc * 120)
        ctx.absorb(lres, llines, sample=1)
        reproduced = sum(1 for x in lres if not x.get('ok') and pattern in (x.get('patterns') or []))
        leads[cfg] = {'pattern': pattern, 'tlc_trace_len': tlen, 'replayed_concretisations': len(lcases), 'reproduced_on_real_code': reproduced}
        # (a lead replay that fails in some OTHER way is a divergence of its own: it was absorbed above and is reported)
        if reproduced == 0 and all(x.get('ok') for x in lres):
            raise vlib.Inconclusive(f'the TLC counterexample of {cfg} ({pattern}) does not reproduce on the real code: the model is wrong '
                                    'about the code (or the code was repaired: retire the finding and the quirk in KVIndex.tla)')
    ctx.extra_cov['leads'] = leads
    ndiv = len(ctx.divergences)          # (the reproduced leads)

    gen_budget = 40000 if quick else 400000
    nsim, dsim = (60, 14) if quick else (1200, 24)
    with ThreadPoolExecutor(max_workers=ncpu) as ex:
        f_gen = [ex.submit(gen, f'KVIndex.Gen_{tier}.cfg', gen_budget), ex.submit(gen, f'KVIndex.Genurm_{tier}.cfg', gen_budget),
                 ex.submit(gen, f'KVIndex.Genbad_{tier}.cfg', gen_budget)]
        f_sim = [ex.submit(sim, f'KVIndex.Sim_{tier}.cfg', False, nsim, dsim), ex.submit(sim, f'KVIndex.Sim_{tier}.cfg', True, nsim // 2, dsim),
                 ex.submit(sim, f'KVIndex.Simurm_{tier}.cfg', False, nsim, dsim), ex.submit(sim, f'KVIndex.Simurm_{tier}.cfg', True, nsim // 4, dsim)]
        gens, sim_cases = [], []
        for f in f_gen:
            try:
                gens.append(f.result())
            except vlib.Inconclusive as e:
                errs.append(str(e))
        for f in f_sim:
            try:
                sim_cases += f.result()
            except vlib.Inconclusive as e:
                errs.append(str(e))
    if errs:
        raise vlib.Inconclusive(' | '.join(errs)[:3000])

    vlib.log(f'XKVINDEX: generation and simulation done t={time.time()-ctx.t0:.0f}s')
    gen_stats = {}
    sampled = False
    acts, outcomes, pacts = {'kv': {}, 'urm': {}}, {}, {'kv': {}, 'urm': {}}
    for cfg, cases, st in gens:
        gen_stats[cfg] = st
        sampled = sampled or st['probes_replayed'] < st['probes']
        res, lines = ctx.replay(binary, cases, procs=ncpu, timeout=sc * (900 if quick else 3000), case_timeout='300s')
        ctx.absorb(res, lines, sample=1)
        # what the driver parsed and replayed (for the vacuity guards below)
        st['probes_with_store_dependent_outcome'] = 0
        for x in res:
            ex = x.get('extra') or {}
            st['probes_with_store_dependent_outcome'] += ex.get('alts', 0)
            for src, dst in ((ex.get('hact'), acts[st['level']]), (ex.get('perr'), outcomes), (ex.get('pact'), pacts[st['level']])):
                for a, n in (src or {}).items():
                    dst[a] = dst.get(a, 0) + n
    res, lines = ctx.replay(binary, sim_cases, procs=ncpu, timeout=sc * (600 if quick else 1800))
    ctx.absorb(res, lines, sample=1)
    for x, c in zip(res, sim_cases):     # (operations that lead back to states BFS has already seen: they are steps of the random behaviours)
        for a, n in ((x.get('extra') or {}).get('hact') or {}).items():
            acts[c['level']][a] = acts[c['level']].get(a, 0) + n
    vlib.log(f'XKVINDEX: replay done t={time.time()-ctx.t0:.0f}s')
    # vacuity guards: every operation advanced some witness history and was probed, every error class was the outcome of some probe
    zero = [f'{lv}:{a}' for lv in ('kv', 'urm') for a in STEP_ACTIONS[lv] if not acts[lv].get(a)]
    zero += [f'{lv}:probe:{a}' for lv in ('kv', 'urm') for a in PROBE_ACTIONS[lv] if not pacts[lv].get(a)]
    zero += [e for e in ERR_CLASSES if not outcomes.get(e)]
    if zero and len(ctx.divergences) == ndiv:
        raise vlib.Inconclusive(f'vacuity guard: never generated: {zero}')

    ctx.exhaustive = not sampled
    ctx.extra_cov['generation'] = gen_stats
    ctx.extra_cov['simulated_behaviours_replayed'] = len(sim_cases)
    ctx.extra_cov['probe_outcomes'] = outcomes
    ctx.extra_cov['model_checking'] = [{'cfg': f'KVIndex.MC_{tier}.cfg', 'distinct': mcs[0].distinct}, {'cfg': f'KVIndex.MCurm_{tier}.cfg', 'distinct': mcs[1].distinct}]
    ctx.rule = ('generation (one TLC worker, strict BFS): for every state of the two buckets (+ bucket present, read path) TLC reaches within MaxOps '
                'changing operations (three configurations: free keys 2 fk x 2-3 pk / keys with the separator inside / URM instance 2 users x 2-3 '
                'resources), one witness history is replayed step by step and EVERY operation of the model is probed in that state (sampled by seed '
                'when above budget) with the outcome of the store kind the case runs on (bolt for a seed-chosen share); simulation: random behaviours '
                'including failed transactions and idle operations, generated per store kind; leads: counterexamples of the contract. After every '
                'step: error class, count, both raw buckets, Walk per foreign key (set, multiplicity, values, early stop, no read path), tenant '
                'listings by user / unfiltered / by resource, Verify. non-trivial = case whose final state has a non-empty source and a non-empty '
                'index; distinct by level and operation sequence. Vacuity guards: every operation kind was a step of a replayed history (witness or random) and was probed at '
                'both levels, every error class occurred among the probes, every step action fired in the MC runs')
    ctx.assumptions += [
        'one caller at a time: writers, Populate (its verify pass and its flushes) and readers do not interleave (migrations run before the services start)',
        'a failing Populate is modelled with the default batch size (nothing flushed before the failure); successful ones are replayed with batch sizes 1, 2, 3, 100 and the default',
        'kv store errors other than a missing bucket are not injected; the transaction failure is an error returned by the transaction function after its writes',
        'records of the free-key level carry a non-empty value (bolt\'s GetBatch reports an empty value as missing); the order of Walk\'s visits is compared as drift only',
        'the URM level creates its two users once per case through the real service; resource ids are not checked by CreateURM and are chosen by the driver',
    ]


META = {
    'extra': True,
    'level': 'model_checking',
    'text': 'TLC checks the contract of the kv secondary index (failed transactions change nothing, frame conditions, idempotent Insert / '
            'Delete / Populate, Populate completes and with cleanup equalises the index, maintained by the integrated writers, Walk exact on '
            'a complete index and silent without the read path, Verify = symmetric difference) on the intended use, finds it violated when a '
            'primary key changes its foreign key and on the in-memory store (leads, reproduced on the real code), and every operation in '
            'every reached state of the model as the code behaves is replayed on the real kv.Index / kv.IndexMigration (inmem and bolt, real '
            'transactions) and on the real tenant user-resource-mapping service, comparing raw buckets, Walk, listings and Verify after every step.',
    'design_ref': '5.30',
    'note': 'Trusted: TLC, the driver\'s concretisation tables and TLA+ value parser, the two known-finding predicates. Small scope: 2-3 foreign '
            'keys, 2-4 primary keys, histories of up to 9 changing operations (+ random walks of 14-24 operations). Sequential only.',
    'technique': 'TLA+ spec (KVIndex.tla) + TLC exhaustive + replay of TLC histories/probes on the real kv.Index and tenant URM service',
    'quick_s': 150, 'thorough_s': 1200,
}
