"""C11 — line protocol and series keys round-trip.  Spec: LineProtocol.tla (Render, the scanner transcribed as a token
automaton, the accessors of a returned point, MakeKey/ParseKey, the round-trippable class InClass).
TLC enumerates every abstract point of five families (measurement / one tag / two tags / one field / two fields vary
over all names of length <= NameLen over {a , = space " \\}; typed field literals; timestamp tokens) and checks on the
model that every point inside the class round-trips (Inv11).  Binding: every enumerated point is replayed on the real
models package: NewPoint -> String / AppendString / PrecisionString(p) -> ParsePointsWithPrecision(p) for every
precision, MakeKey -> ParseKeyBytes; compared: measurement, tags in sorted order, field names/types/values, time."""
import json
import os

import vlib


def tlc_dump(ctx, cfg, timeout, must_pass=True, count=True):
    """TLC run with -dump.  Development aid: with VERIF_LP_DUMP_CACHE=<dir> the dump of a configuration is kept in <dir>
    and reused by later runs (TLC's part does not depend on the tree under test or on the seed); unset in normal use."""
    cache = os.environ.get('VERIF_LP_DUMP_CACHE')
    if cache:
        os.makedirs(cache, exist_ok=True)
        dp, mp = os.path.join(cache, cfg + '.dump'), os.path.join(cache, cfg + '.json')
        if os.path.exists(dp) and os.path.exists(mp):
            meta = json.load(open(mp))
            r = vlib.TLCResult()
            r.ok, r.generated, r.distinct, r.dump_path, r.cached = True, meta['generated'], meta['distinct'], dp, True
            ctx.states += r.distinct
            ctx.transitions += r.generated
            ctx.tlc_runs.append({'spec': 'LineProtocol', 'cfg': cfg, 'generated': r.generated, 'distinct': r.distinct, 'depth': meta.get('depth', 0),
                                 'ok': True, 'violated': None, 'wall_s': 0.0, 'mode': 'bfs (dump reused from VERIF_LP_DUMP_CACHE)'})
            return r
    if must_pass:
        r = ctx.tlc_must_pass('LineProtocol', cfg, timeout=timeout, dump=True)
    else:
        r = ctx.tlc('LineProtocol', cfg, timeout=timeout, dump=True, count=count)
    r.cached = False
    if cache and r.ok:
        import shutil
        shutil.copy(r.dump_path, dp)
        json.dump({'generated': r.generated, 'distinct': r.distinct, 'depth': r.depth}, open(mp, 'w'))
    return r


def cases_from_dump(ctx, r, variants):
    cases = []
    for st in ctx.dump_states(r):
        e = st['exp']
        if 'none' in e:
            continue
        e = dict(e)
        e['line'] = ''.join(e['line'])
        e['key'] = ''.join(e['key'])
        cases.append({'mode': 'point', 'p': st['inp'], 'exp11': e, 'variants': variants, 'family': st['mode']})
    return cases


def run(ctx):
    tier = ctx.tier
    # (TLC's -coverage cost model exhausts the heap on the deeply recursive scanner operators, so the vacuity guard counts
    # the states each action produced in the dump instead: a state with exp # None was produced by GenPoint)
    r = tlc_dump(ctx, f'LineProtocol.C11_{tier}.cfg', 1500)
    variants = 2 if tier == 'quick' else 4
    cases = cases_from_dump(ctx, r, variants)
    r.coverage = {'GenPoint': len(cases)}
    ctx.check_coverage(r, ['GenPoint'])
    if not cases:
        raise vlib.Inconclusive('no abstract points in the TLC dump')
    fams = {}
    in_class = 0
    for c in cases:
        fams[c['family']] = fams.get(c['family'], 0) + 1
        in_class += 1 if c['exp11']['inClass'] else 0
    if in_class == 0 or in_class == len(cases):
        raise vlib.Inconclusive('vacuity guard: the round-trippable class is empty or everything')
    ctx.exhaustive = True
    binary = ctx.go_build('lp')
    res, lines = ctx.replay(binary, cases, timeout=1200, case_timeout='900s')
    ctx.absorb(res, lines)
    ctx.extra_cov['points_enumerated'] = len(cases)
    ctx.extra_cov['points_by_family'] = fams
    ctx.extra_cov['points_inside_roundtrippable_class'] = in_class
    ctx.extra_cov['concretisations_per_point'] = variants
    ctx.rule = ('every abstract point TLC enumerates (families M/T1/T2/F1/F2 of LineProtocol.tla) is replayed under '
                f'{variants} concretisations (letters incl. multi-byte UTF-8, digits, extreme int/uint/float values, timestamps at '
                '0, +-1 and Min/MaxNanoTime scaled to every precision) x every precision {ns,us,ms,s} x String/AppendString/'
                'PrecisionString; non-trivial = the rendered line contains an escape or a quote, or the point has >= 2 tags; '
                'distinct by rendered abstract line')
    ctx.assumptions += [
        'components are non-empty: an empty measurement, tag key or tag value is accepted by NewPoint but has no line-protocol '
        'representation at all (outside the modelled domain)',
        '"valid point" = accepted by models.NewPoint (the constructor\'s verdict is used at replay time)',
        'float/integer literal fidelity at extreme values is sampled by the concretisation, not decided by the spec',
        'zero time.Time (no timestamp rendered) round-trips with defaultTime = zero time',
    ]


META = {
    'level': 'model_checking',
    'text': 'TLC checks on LineProtocol.tla that Parse(Render(p)) = p and ParseKey(MakeKey(name,tags)) = (name, sorted tags) '
            'for every abstract point inside the round-trippable class and exports every point with the spec\'s class '
            'verdict; each point is replayed on the real models package at every precision, so a round-trip failure of a '
            'point inside the class is a violation and failures outside it must satisfy the predicate of a known finding.',
    'design_ref': '5.19',
    'note': 'Trusted: TLC, the driver\'s comparison of name/tags/fields/time (strconv only to turn the spec\'s literal text '
            'into typed values), the class predicates recomputed in the driver (cross-checked against the spec\'s verdict for '
            'every case).',
    'technique': 'TLA+ spec (LineProtocol.tla) + TLC exhaustive enumeration of abstract points + replay on models.NewPoint/'
                 'ParsePointsWithPrecision/MakeKey/ParseKeyBytes',
    'quick_s': 90, 'thorough_s': 900,
}
