"""C21 — storage filter/group reads return exactly the stored series and points across shards.

Spec: StorageRead.tla.  Contract layer: FilterExp (each matching series with points in range once, exactly its points in
range in time order) and GroupExp(gk) (partition of the same series by group-key values, groups ordered by the tuple
of key values with a missing key last; group none = one group).  Implementation layer: Plan (findShardIDs +
indexSeriesCursor: keys x fields of the selected shards, predicate), Fetch (multi-shard cursor = concatenation of the
shard cursors), Group (sort key with 0xff for a missing key, stable sort, runs of equal keys).  TLC checks
FilterContract, GroupContract and Partition for every dataset x range x predicate x group-key list of the domain.

Binding: every final TLC state is a request with its expected results; requests are grouped by dataset and replayed by
harness/cmd/storageread on v1/services/storage Store.ReadFilter / ReadGroup over a real two- or three-shard tsdb.Store with a
fake MetaClient, under a seed-dependent order-preserving concretisation (escape-heavy names, all field types, time
base/unit, data partly flushed to TSM files)."""
import json
import os
import re

import tlaval
import vlib


def cfg_text(series, patterns, ranges, preds, nshards=2):
    n = lambda xs: '{' + ', '.join(str(x) for x in xs) + '}'
    pats = '{' + ', '.join(n(p) for p in patterns) + '}'
    return f'''SPECIFICATION Spec
CONSTANTS
  SeriesIdx = {n(series)}
  Patterns = {pats}
  RangeIdx = {n(ranges)}
  PredIdx = {n(preds)}
  H = 4
  NShards = {nshards}
INVARIANTS FilterContract GroupContract Partition
CHECK_DEADLOCK FALSE
'''


def final_states(path, marker, wanted):
    """Fast scan of a TLC dump: only blocks containing the line `marker` are parsed, and only the wanted variables."""
    def parse(buf):
        st = {}
        for part in re.split(r'(?:^|\n)/\\ ', ''.join(buf)):
            part = part.strip()
            if not part:
                continue
            name, rest = part.split(' = ', 1)
            name = name.strip()
            if name in wanted:
                st[name] = tlaval.plain(tlaval.P(rest).value())
        return st
    buf, keep = [], False
    with open(path) as f:
        for line in f:
            if line.startswith('State ') and line.rstrip().endswith(':'):
                if keep:
                    yield parse(buf)
                buf, keep = [], False
            else:
                buf.append(line)
                if line.startswith(marker):
                    keep = True
    if keep:
        yield parse(buf)


def run(ctx):
    tier = ctx.tier
    binary = ctx.go_build('storageread')
    allpreds = list(range(1, 13))
    if tier == 'quick':
        slices = [dict(series=[1, 2, 3, 6], patterns=[[], [1, 3], [4, 6], [2, 3, 4, 5]], ranges=[1, 2, 3, 4], preds=allpreds),
                  # three shards: a series with a gap in the middle shard while another series of the same measurement+field
                  # has points there (non-nil but empty cursor in the middle of a series), series starting in shard 3
                  dict(series=[1, 3, 6], patterns=[[], [1, 9], [5, 6], [3, 4, 8], [10]], ranges=[8, 9, 10], preds=[1, 3, 5, 8, 9, 11],
                       nshards=3)]
        max_reqs = 16000
    else:
        slices = [dict(series=[1, 2, 3, 4, 5, 6], patterns=[[], [1, 3], [2, 3, 4, 5]], ranges=[1, 2, 3, 4, 5, 6, 7], preds=allpreds),
                  dict(series=[1, 2, 3, 4, 6], patterns=[[], [1, 3], [4, 6], [2, 3, 4, 5], [0, 7]], ranges=[1, 2, 3], preds=[1, 3, 8, 9, 10]),
                  dict(series=[1, 2, 3, 6], patterns=[[], [1, 9], [5, 6], [3, 4, 8], [10]], ranges=[8, 9, 10, 11], preds=allpreds, nshards=3)]
        max_reqs = None
    total = replayed = ntreq = gapreq = 0
    exhaustive = True
    for sl in slices:
        r = ctx.tlc_must_pass('StorageRead', cfg_text(**sl), timeout=1700, dump=True, coverage=True, workers=min(vlib.NCPU, 12))
        ctx.check_coverage(r, ['Expect', 'Plan', 'Fetch', 'Group'])
        groups = {}
        for st in final_states(r.dump_path, '/\\ phase = "done"', {'c', 'exp'}):
            c, e = st['c'], st['exp']
            # TLC prints a function whose domain is 1..n as a tuple (SeriesIdx = {1,..,6}): give it back its keys
            for fld in ('ds', 'pool'):
                if isinstance(c[fld], list):
                    c[fld] = {str(i + 1): v for i, v in enumerate(c[fld])}
            key = json.dumps(c['ds'], sort_keys=True)
            g = groups.get(key)
            if g is None:
                g = groups[key] = {'ds': c['ds'], 'pool': c['pool'], 'h': c['h'], 'n': c['n'], 'gks': c['gks'], 'reqs': []}
            g['reqs'].append({'lo': c['lo'], 'hi': c['hi'], 'pred': c['pred'], 'filter': e['filter'], 'groups': e['groups']})
            total += 1
        try:
            os.remove(r.dump_path)
        except OSError:
            pass
        if not groups:
            raise vlib.Inconclusive('no final states in the TLC dump')
        cases = list(groups.values())
        if max_reqs is not None and sum(len(g['reqs']) for g in cases) > max_reqs:
            # budget: every dataset is replayed, with a seeded sample of its requests
            exhaustive = False
            per = max(1, max_reqs // len(cases))
            cases = [dict(g, reqs=vlib.sample_list(ctx.rng, g['reqs'], per)) for g in cases]
        replayed += sum(len(g['reqs']) for g in cases)
        if len(ctx.samples) < 3:
            g = cases[ctx.rng.randrange(len(cases))]
            ctx.samples.append(dict(g, reqs=[g['reqs'][ctx.rng.randrange(len(g['reqs']))]]))
        res, lines = ctx.replay(binary, cases, timeout=1500, case_timeout='600s')
        # a failing dataset is re-run with only the failing request, so that the recorded divergence is minimal
        bad = [x for x in res if not (x.get('ok') or x.get('kind') == 'infra')]
        good = [x for x in res if x.get('ok') or x.get('kind') == 'infra']
        for x in res:
            ntreq += int((x.get('extra') or {}).get('nontrivial_requests', 0))
            gapreq += int((x.get('extra') or {}).get('gap_requests', 0))
        ctx.absorb(good, lines, sample=0)
        if bad:
            singles, origin, keep = [], [], []
            for x in bad:
                c = cases[x['id']]
                stp = x.get('step')
                if isinstance(stp, int) and 0 <= stp < len(c['reqs']) and len(c['reqs']) > 1:
                    singles.append(dict(c, reqs=[c['reqs'][stp]]))
                    origin.append(x)
                else:
                    keep.append(x)
            if singles:
                res2, lines2 = ctx.replay(binary, singles, timeout=900, case_timeout='600s')
                for x2, x in zip(res2, origin):
                    if x2.get('ok'):
                        keep.append(x)      # depends on the concretisation: report the whole dataset case
                ctx.absorb([x2 for x2 in res2 if not x2.get('ok')], lines2, sample=0)
            ctx.absorb(keep, lines, sample=0)
    ctx.exhaustive = exhaustive
    ctx.extra_cov['requests_total'] = total
    ctx.extra_cov['requests_replayed'] = replayed
    ctx.extra_cov['reads_per_request'] = 9
    ctx.extra_cov['nontrivial_requests'] = ntreq
    ctx.extra_cov['requests_with_series_gap_in_middle_shard'] = gapreq
    if gapreq == 0:
        raise vlib.Inconclusive('vacuity guard: no replayed request returned a series with a gap in the middle of three shards')
    ctx.rule = ('request = (dataset: timestamp pattern per series of the pool over two shards (first slice) or three shards (second slice: gaps in the middle shard), range, predicate, and all 8 group-key lists '
                'incl. group none); every request is model-checked; a replay case = one dataset (one real two-shard store) with its '
                'requests (all of them, or a seeded sample per dataset when above the quick budget), each request = 1 ReadFilter + 8 '
                'ReadGroup; evaluations = reads; non-trivial request = some returned series has points in both shards, or a group result '
                'has several groups one of which has a missing key; distinct_nontrivial counts datasets with such a request')
    ctx.assumptions += [
        'shard groups have disjoint time ranges and every point lives in the shard owning its time (C18/C19); with overlapping shard '
        'data the multi-shard cursor concatenates (it never merges), which is outside this property\'s domain',
        'a series or key/field combination without a point in range is not part of a result (the code returns it with an empty or nil cursor)',
        'order of series inside a filter result and inside a group is compared as drift only (C21 orders groups, not members)',
        'predicates: =, != on tags/_measurement/_field, AND, OR (absent tag = empty string); regex and field-value predicates not modelled',
    ]


META = {
    'level': 'model_checking',
    'text': 'TLC checks, for every dataset/range/predicate/group-key list of the bounded domain, that the shard selection, index '
            'series cursor, multi-shard cursor concatenation and group sort of the storage service produce exactly the contract\'s '
            'filter result and ordered partition; every TLC request is replayed on the real Store.ReadFilter/ReadGroup over a real '
            'two-shard tsdb.Store.',
    'design_ref': '5.13',
    'note': 'Trusted: TLC, the fake MetaClient (meta.ShardGroupInfo.Overlaps on two disjoint groups), the order-preserving '
            'concretisation of names and the mapping of returned tags back to the pool.',
    'technique': 'TLA+ spec (StorageRead.tla) + TLC exhaustive + replay of every TLC request on the real storage service',
    'quick_s': 120, 'thorough_s': 1200,
}
