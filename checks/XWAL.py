"""XWAL — extension module (not a listed property; deepens C02): the tsm1 write-ahead log.
Spec: WAL.tla (segments of whole entries, volatile writer handle and pending-sync set, roll-over, CloseSegment, Remove,
Close, Crash with absent / complete / torn in-flight entries, Reopen in Engine.Open's order, Replay = CacheLoader).
Binding: every generated history is replayed on a real tsm1.WAL in a scratch directory; after every step the segment
files are read back with the real WALSegmentReader, a crash image is loaded by the real CacheLoader into a real Cache,
and the bytes the step appended are cut at every offset and loaded again (harness/cmd/wal)."""
import json
import time
import vlib

ACTIONS = ['Write', 'AppendOp', 'Sync', 'CloseSegment', 'Remove', 'Close', 'Crash', 'Reopen']


def _sig(h):
    """what a history does, without what it observes"""
    return json.dumps([[s.get('a'), s.get('n'), s.get('j'), s.get('tz'), s.get('ids')] for s in h])


def _case(ctx, hist, ops, tag, sweep='all'):
    return {'steps': hist, 'ops': ops, 'variant': ctx.rng.randrange(1, 1 << 30),
            # segment numbering starts after an empty last segment left by an earlier process: the ids of the history
            # straddle a digit boundary of the file names for some cases (99997/99998: they outgrow the %05d pattern)
            'base': ctx.rng.choice([0, 0, 0, 7, 8, 97, 98, 9997, 99997, 99998]), 'sweep': sweep, 'tag': tag}


def run(ctx):
    tier = ctx.tier
    quick = tier == 'quick'
    # 1. the design: contract invariants over every interleaving up to the bound (VIEW hides the history)
    r = ctx.tlc_must_pass('WAL', f'WAL.MC_{tier}.cfg', timeout=300 if quick else 1500, coverage=True)
    ctx.check_coverage(r, ACTIONS)
    # 2. the contract is sensitive: with the writer offset left beyond a truncated torn tail (what WAL.Open followed by
    #    CacheLoader did before the O_APPEND repair) TLC must find an acknowledged write that replay does not return
    lead = ctx.tlc('WAL', 'WAL.Lead_hole.cfg', timeout=300, count=False)
    if lead.timed_out or lead.violated != 'ReplayEqualsAcked' or not lead.trace:
        raise vlib.Inconclusive(f'WAL.Lead_hole.cfg: expected a ReplayEqualsAcked counterexample, got violated={lead.violated}')
    import tlaval
    lead_hist = tlaval.plain(lead.trace[-1][1])['hist']
    lead_acts = [s['a'] for s in lead_hist]
    ctx.extra_cov['model_level_lead_hole'] = {'violates': lead.violated, 'actions': lead_acts}
    # 3. every history of a small configuration (contains the lead's actions with the contract's expectations)
    gx = ctx.tlc_must_pass('WAL', f'WAL.Genx_{tier}.cfg', timeout=600 if quick else 1500, dump=True)
    maxops_x = 5 if quick else 4
    exh = []
    lead_sig = _sig(lead_hist)[:-1]
    n_lead = 0
    for st in ctx.dump_states(gx):
        h = st['hist']
        if len(h) != maxops_x:
            continue
        is_lead = _sig(h).startswith(lead_sig)
        n_lead += is_lead
        exh.append((is_lead, h, st['ops']))
    if quick and n_lead == 0:
        raise vlib.Inconclusive('the exhaustive generation does not contain the lead history (append, torn crash, reopen, write)')
    budget_x = 2400 if quick else 12000
    must = [e for e in exh if e[0]]
    rest = [e for e in exh if not e[0]]
    chosen = must[:50] + vlib.sample_list(ctx.rng, rest, max(0, budget_x - min(50, len(must))))
    ctx.exhaustive = len(chosen) == len(exh)
    cases = [_case(ctx, h, ops, 'lead' if il else 'exh') for il, h, ops in chosen]
    # 4. longer random behaviours of the full configuration
    nsim = max(1, (480 if quick else 8000) // vlib.NCPU)   # behaviours per TLC worker
    depth = 11 if quick else 15
    sim = ctx.tlc('WAL', f'WAL.Gen_{tier}.cfg', timeout=600 if quick else 1500, simulate={'num': nsim}, depth=depth)
    if sim.timed_out or not sim.ok:
        raise vlib.Inconclusive('simulation run failed: ' + sim.stdout[-1500:])
    seen = set()
    nsimh = 0
    for b in ctx.sim_behaviours(sim):
        h = b[-1]['hist']
        k = _sig(h)
        if len(h) < 4 or k in seen:
            continue
        seen.add(k)
        nsimh += 1
        cases.append(_case(ctx, h, b[-1]['ops'], 'sim'))
    ctx.rng.shuffle(cases)
    vlib.log(f'XWAL: {len(exh)} exhaustive histories ({len(must)} start with the lead), {len(chosen)} chosen, {nsimh} distinct random histories, t={time.time()-ctx.t0:.0f}s')
    binary = ctx.go_build('wal')
    res, lines = ctx.replay(binary, cases, timeout=900 if quick else 3000)
    ctx.absorb(res, lines)
    vlib.log(f'XWAL: replay done t={time.time()-ctx.t0:.0f}s')
    if ctx.drift.get('no_wal_hooks'):
        vlib.log('wal.go of this tree has no verif schedule points: histories with concurrent callers were skipped')
    ctx.extra_cov['histories_exhaustive_total'] = len(exh)
    ctx.extra_cov['histories_exhaustive_replayed'] = len(chosen)
    ctx.extra_cov['histories_lead_prefix_replayed'] = min(50, len(must))
    ctx.extra_cov['histories_random_replayed'] = nsimh
    ctx.extra_cov['histories_with_concurrent_callers'] = sum(1 for c in cases if any(s['a'] == 'append' for s in c['steps']))
    ctx.extra_cov['histories_with_torn_crash'] = sum(1 for c in cases if any(s['a'] == 'crash' and s.get('tz', 0) > 0 for s in c['steps']))
    ctx.extra_cov['histories_with_remove'] = sum(1 for c in cases if any(s['a'] == 'remove' for s in c['steps']))
    ctx.rule = ('every history of the small configuration (Genx, sampled by seed when above budget; all histories that start with '
                'the model-level lead are kept) plus distinct random behaviours of the full configuration (2 keys x 3 timestamps, '
                '7 operation templates of 2 or 4 size units, SegSize 4 units, up to 2 callers per fsync); after every step: segment files '
                'read back entry by entry, ClosedSegments, a crash image through CacheLoader, and every byte truncation of the '
                'bytes the step appended; non-trivial = a history with a Remove, a crash with in-flight entries, two callers '
                'sharing one fsync, or at least two flushes')
    ctx.assumptions += [
        'process-crash model: bytes handed to write() persist, bytes still in the segment writer\'s buffer are lost or persist as a prefix; a missing fsync is invisible',
        'a reopen is WAL.Open followed by CacheLoader.Load over all segment files (the order of Engine.Open); the driver performs these two calls itself',
        'Remove is called with files returned by ClosedSegments (as Engine.WriteSnapshot does)',
        'series keys contain no newline (DeleteWALEntry separates keys by newline); zero-filled tails are finding F47 (C02), not swept here',
        'entries are below the 16 KiB bufio buffer of the segment writer (a larger entry is partly written before the fsync; the truncation sweep covers its images)',
    ]


META = {
    'extra': True,
    'level': 'model_checking',
    'text': 'Extension of the specification to the tsm1 write-ahead log (deepens C02): TLC checks that replaying the segments '
            'yields exactly the acknowledged, not removed operations in order (plus at most in-flight ones), that a torn tail '
            'never hides an acknowledged entry, that Remove never takes the current segment, that segment ids increase and no '
            'entry spans segments; every generated history is replayed on the real WAL / WALSegmentReader / CacheLoader with '
            'crash images and byte-granular torn tails after every step.',
    'design_ref': '5.1',
    'note': 'Trusted: TLC, the driver\'s projection of entries and cache contents onto the abstract domain, the process-crash '
            'model. Concurrent callers are scheduled through two verif hook points in wal.go.',
    'technique': 'TLA+ spec (WAL.tla) + TLC exhaustive/simulation + replay of TLC histories on the real tsm1 WAL and CacheLoader',
    'quick_s': 120, 'thorough_s': 1200,
}
