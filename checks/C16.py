"""C16 — delete predicates match exactly the series they describe.  Spec: Predicate.tla (contract EvalPred; implementation
layer KeyOf / PopTag / memoising three-valued update = MatcherModel; SkipName = the repair of F36).  TLC enumerates (series, predicate) pairs — the state
is the case, `want` is the oracle — in escape-focused configs (every string of length <= 2 over {a, b, ' ', ',', '='} as
measurement / tag key / tag value, leaf predicates over the series' own strings and foreign ones) and connective-focused
configs (AND/OR trees of depth <= 2).  Binding: replay of every pair on the real code: datatypes.Predicate ->
tsm1.NewProtobufPredicate (+ Clone, Marshal/Unmarshal), AND-only trees also through predicate.Parse -> predicate.New; key
built as tsdb.PredicateSeriesIDIterator builds it; Predicate.Matches; and end to end through
tsdb.Store.DeleteSeriesWithPredicate for a sample of predicates (all series paired with that predicate in one store)."""
import json
import os
import re
import threading

import vlib

# (cfg file, list of constant overrides -> one TLC run each)
QUICK = [
    ('Predicate.EscMeas_quick.cfg', [{}]),
    ('Predicate.EscKey_quick.cfg', [{}]),
    ('Predicate.EscVal_quick.cfg', [{}]),
    ('Predicate.Esc2_quick.cfg', [{}]),
    ('Predicate.Logic_quick.cfg', [{'TagCounts': '= {0, 1}'}, {'TagCounts': '= {2}'}]),
]
THOROUGH = [
    ('Predicate.EscAll_thorough.cfg', [{'MeasSet': '<- ' + p} for p in ('SWa', 'SWb', 'SWsp', 'SWcm', 'SWeq')]),
    ('Predicate.Esc2_thorough.cfg', [{}]),
    ('Predicate.Logic_thorough.cfg', [{'TagCounts': '= {0, 1}'},
                                      {'TagCounts': '= {2}', 'MeasSet': '<- OnlyA'},
                                      {'TagCounts': '= {2}', 'MeasSet': '<- OnlyB'}]),
]


def _cfg_text(ctx, name, over):
    with open(os.path.join(ctx.spec_dir, name)) as f:
        txt = f.read()
    for k, v in over.items():
        txt, n = re.subn(r'(?m)^(\s*)' + k + r'\s*(<-|=).*$', r'\1' + k + ' ' + v, txt)
        if n != 1:
            raise vlib.Inconclusive(f'cannot override {k} in {name}')
    return txt if '\n' in txt else txt + '\n'


def run(ctx):
    plan = QUICK if ctx.tier == 'quick' else THOROUGH
    jobs = []
    for name, overs in plan:
        for i, over in enumerate(overs):
            jobs.append((name, i, over))
    results = {}

    def work(job):
        name, i, over = job
        tag = name.replace('Predicate.', '').replace('.cfg', '') + f'-{i}'
        try:
            results[job[:2]] = ctx.tlc('Predicate', _cfg_text(ctx, name, over), workers=1, timeout=3000, dump=True, tag=tag,
                                       heap='3g', count=False)
        except Exception as e:  # noqa
            results[job[:2]] = e

    par = max(1, vlib.NCPU // 2)
    pending = list(jobs)
    while pending:
        batch, pending = pending[:par], pending[par:]
        ths = [threading.Thread(target=work, args=(j,)) for j in batch]
        for t in ths:
            t.start()
        for t in ths:
            t.join()
    cases = []
    leads = 0
    per_cfg = {}
    groups = {}
    for name, i, over in jobs:
        r = results[(name, i)]
        if isinstance(r, Exception):
            raise vlib.Inconclusive(f'TLC failed on {name}: {r}')
        if r.timed_out or not r.ok:
            raise vlib.Inconclusive(f'TLC did not pass on {name} {over}: violated={r.violated}\n' + r.stdout[-1500:])
        ctx.states += r.distinct
        ctx.transitions += r.generated
        n = 0
        for st in ctx.dump_states(r):
            n += 1
            c = {'mode': 'match', 'meas': st['meas'], 'tags': st['tags'], 'pred': st['pred'], 'key': st['key'],
                 'want': st['want'], 'impl': st['impl']}
            if st['impl'] != st['want']:
                leads += 1
            cases.append(c)
            g = groups.setdefault(json.dumps(st['pred'], sort_keys=True), [])
            g.append(c)
        if n != r.distinct:
            raise vlib.Inconclusive(f'dump of {name} has {n} states, TLC reported {r.distinct}')
        per_cfg[name] = per_cfg.get(name, 0) + n
    if not cases:
        raise vlib.Inconclusive('no cases generated')
    # the matcher as it was found (bare measurement name popped like a tag pair, F36) violates the contract on the model
    lead = ctx.tlc('Predicate', 'Predicate.LeadAsFound.cfg', workers=1, timeout=1500, heap='2g', tag='lead-asfound', count=False)
    ctx.extra_cov['as_found_matcher_model'] = ('violates ' + lead.violated) if lead.violated else ('no violation' if lead.ok else 'error')
    binary = ctx.go_build('pred')
    # 1. every pair through Matches, under `nconc` concretisations of the two letters (escape symbols are fixed)
    nconc = 1 if ctx.tier == 'quick' else 3
    for k in range(nconc):
        res, lines = ctx.replay(binary, cases, procs=vlib.NCPU, timeout=6000, case_timeout='1500s', args={'letters': ctx.seed + k})
        ctx.absorb(res, lines)
    # 2. end to end: for a sample of predicates, all series TLC paired with that predicate in one real store
    keys = sorted(groups)
    nE2E = 120 if ctx.tier == 'quick' else 1500
    # prefer predicates that select some but not all of their series
    mixed = [k for k in keys if 0 < sum(1 for c in groups[k] if c['want']) < len(groups[k])]
    chosen = vlib.sample_list(ctx.rng, mixed, nE2E)
    e2e = []
    for k in chosen:
        g = groups[k]
        sel = vlib.sample_list(ctx.rng, g, 24)
        seen = set()
        series = []
        for c in sel:
            sk = json.dumps([c['meas'], c['tags']])
            if sk in seen:
                continue
            seen.add(sk)
            series.append({'meas': c['meas'], 'tags': c['tags'], 'want': c['want'], 'impl': c['impl'], 'key': c['key']})
        e2e.append({'mode': 'e2e', 'pred': g[0]['pred'], 'series': series})
    if e2e:
        res2, lines2 = ctx.replay(binary, e2e, procs=vlib.NCPU, timeout=6000, case_timeout='1500s', args={'letters': ctx.seed})
        ctx.absorb(res2, lines2)
    ctx.exhaustive = True
    ctx.extra_cov['pairs_per_config'] = per_cfg
    ctx.extra_cov['pairs_total'] = len(cases)
    ctx.extra_cov['model_leads_impl_ne_want'] = leads
    ctx.extra_cov['e2e_predicates'] = len(e2e)
    ctx.extra_cov['e2e_series'] = sum(len(c['series']) for c in e2e)
    ctx.extra_cov['concretisations'] = nconc
    ctx.rule = ('every (series, predicate) state of the Predicate.tla configs is replayed through Matches (protobuf form, its '
                'Clone, its Marshal/Unmarshal image, and the predicate.Parse form for AND-only trees; key as the index iterator '
                'builds it, with and without a field suffix, each twice); non-trivial = the series key contains an escape or '
                'the predicate has a connective. e2e: sampled predicates that select a proper non-empty subset of their '
                'series, run through Store.DeleteSeriesWithPredicate on a real one-shard store')
    ctx.assumptions += [
        'a comparison on a tag the series does not have is not satisfied, for != as for = (DESIGN 5.9 (i))',
        'names and values containing a backslash are outside the domain (DESIGN 5.9 (ii)); no empty names/values',
        'strings are over {letter, letter, space, comma, equals} with length <= 2; the two letters are concretised per seed',
    ]


META = {
    'level': 'model_checking',
    'text': 'TLC enumerates series x predicate pairs with explicit escaping and evaluates the contract EvalPred and a model of '
            'the matcher (tag popping, memoised three-valued update); every pair is replayed on the real compiled predicate '
            '(protobuf and parsed forms) and a sample end to end through Store.DeleteSeriesWithPredicate.',
    'design_ref': '5.9',
    'note': 'Trusted: TLC, the symbol concretisation (5 symbols), the reading of absent tags fixed in DESIGN 5.9.',
    'technique': 'TLA+ spec (Predicate.tla) + TLC exhaustive enumeration + replay of every state on the real predicate matcher',
    'quick_s': 120, 'thorough_s': 1200,
}
