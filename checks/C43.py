"""C43 — v1 database/retention-policy names resolve to one bucket.  Spec: DBRP.tla (mapping records + default register
as dbrp/service.go keeps them, FindMany with the virtual mappings derived from bucket names; contract = at most one bucket
per (org, db, rp), exactly one default per database with a stored mapping, empty-rp lookup returns it, delete/unset of the
default promotes another).  Binding: every TLC history is replayed on the real dbrp.Service (in-memory kv, fixed bucket
service); the contract is checked on the real read API after every step and the final read-API results are compared with
the spec's observation."""
import json
import os
import re
import threading
import vlib

NVARIANTS = 4   # harness/cmd/dbrp/main.go: variants


def cfg_consts(ctx, cfgname):
    """keys [[org, db]], rps and virtual-bucket owners of a Gen config, read from the cfg text"""
    txt = open(os.path.join(ctx.spec_dir, cfgname)).read()

    def strs(name):
        m = re.search(name + r'\s*=\s*\{([^}]*)\}', txt)
        return re.findall(r'"([^"]*)"', m.group(1))
    m = re.search(r'VirtOrgs\s*=\s*\{([^}]*)\}', txt)
    virt = [int(x) for x in re.findall(r'\d+', m.group(1))]
    m = re.search(r'CollideOrgs\s*=\s*\{([^}]*)\}', txt)
    collide = [int(x) for x in re.findall(r'\d+', m.group(1))]
    keys = [[1, d] for d in strs('DBs1')] + [[2, d] for d in strs('DBs2')]
    return keys, strs('RPs'), virt, collide


def case_of(st, consts):
    """One dumped state -> the case as a JSON string without its closing brace (the variant is appended later).
    obs is already sets of tuples: list [org,id,db,rp,bucket,default,virtual], bydb/defl [org,db,id],
    res [org,db,rp,id,bucket], byid [id,org,default]."""
    keys, rps, virt, collide = consts
    c = {'steps': st['hist'], 'keys': keys, 'rps': rps, 'virtOrgs': virt, 'collideOrgs': collide, 'obs': st['obs']}
    return json.dumps(c, separators=(',', ':'))[:-1]


def with_nv(base, nv):
    return f'{base},"nv":{nv}}}\n'


def run(ctx):
    tier = ctx.tier
    box = {}

    def mc():
        try:
            box['mc'] = ctx.tlc('DBRP', f'DBRP.MC_{tier}.cfg', timeout=1500, coverage=True, workers=max(1, vlib.NCPU // 2), tag='mc')
        except Exception as e:  # noqa
            box['mc_err'] = e

    def build():
        try:
            box['bin'] = ctx.go_build('dbrp')
        except Exception as e:  # noqa
            box['bin_err'] = e
    build()   # first, alone: the Go build is itself parallel
    th = [threading.Thread(target=mc)]   # model checking runs beside behaviour generation, each with half of the workers
    for t in th:
        t.start()
    jobs = []
    totals = {}
    replayed = {}
    exhaustive = True
    budget = 120000 if tier == 'quick' else 600000
    # wide: both organizations and databases, fewer operations; deep: one (org, db), all retention policies, more operations
    for name in ('GenWide', 'GenDeep'):
        consts = cfg_consts(ctx, f'DBRP.{name}_{tier}.cfg')
        g = ctx.tlc_must_pass('DBRP', f'DBRP.{name}_{tier}.cfg', timeout=1500, dump=True, workers=max(1, vlib.NCPU // 2), tag=name)
        cases = [case_of(st, consts) for st in ctx.dump_states(g)]
        totals[name] = len(cases)
        chosen = vlib.sample_list(ctx.rng, cases, budget)
        replayed[name] = len(chosen)
        exhaustive = exhaustive and len(chosen) == len(cases)
        for b in chosen:
            jobs.append(with_nv(b, ctx.rng.randrange(NVARIANTS)))
        for b in vlib.sample_list(ctx.rng, chosen, len(chosen) // 10):
            for nv in range(NVARIANTS):
                jobs.append(with_nv(b, nv))
    # longer histories over the full domain: random behaviours, each replayed with its final observation
    nsim = 0
    s = ctx.tlc('DBRP', f'DBRP.Sim_{tier}.cfg', timeout=900, simulate={'num': max(1, (4000 if tier == 'quick' else 20000) // vlib.NCPU)},   # TLC's num is per worker
                depth=7 if tier == 'quick' else 8, workers=vlib.NCPU, tag='sim')
    if s.timed_out or not s.ok:
        raise vlib.Inconclusive('DBRP simulate run failed: ' + s.stdout[-1500:])
    consts = cfg_consts(ctx, f'DBRP.Sim_{tier}.cfg')
    for b in ctx.sim_behaviours(s):
        jobs.append(with_nv(case_of(b[-1], consts), ctx.rng.randrange(NVARIANTS)))
        nsim += 1
    for t in th:
        t.join()
    if 'mc_err' in box:
        raise box['mc_err']
    if 'bin_err' in box:
        raise box['bin_err']
    r = box['mc']
    if r.timed_out or not r.ok:
        raise vlib.Inconclusive(f'TLC did not pass on DBRP MC: violated={r.violated}\n' + '\n'.join(r.stdout.splitlines()[-30:]))
    ctx.check_coverage(r, ['Create', 'Update', 'Delete'])
    jpath = ctx.tmp('jobs.ndjson')
    with open(jpath, 'w') as f:
        f.writelines(jobs)
    res, lines = ctx.replay(box['bin'], jpath, timeout=1500, procs=vlib.NCPU)
    ctx.absorb(res, lines)
    ctx.exhaustive = exhaustive
    ctx.extra_cov['histories_total'] = totals
    ctx.extra_cov['histories_replayed'] = replayed
    ctx.extra_cov['simulated_long_histories'] = nsim
    ctx.rule = ('every TLC history (every prefix is its own case) of Create(org, db, rp, default) / Update(id, rp, default) / '
                'Delete(id, by owner or by the other organization) for two configurations: wide = 2 organizations x 2 databases, deep = '
                'one database with all retention policies and longer histories; organization 1 additionally owns buckets named "<d1>" and '
                '"<d1>/<r1>" that yield virtual mappings and, in the deep and simulated configurations, a bucket "<d1>/autogen" whose virtual mapping '
                'collides with the one of "<d1>"; every history under a seed-chosen concretisation of names/ids and a tenth under '
                'all four; non-trivial = the history has an update, a delete or a refused operation; distinct = distinct (operations, final listing)')
    ctx.assumptions += [
        'sequential histories through the DBRPMappingService API of dbrp.Service (the authorizing wrapper and HTTP layer are not in the loop)',
        'operations address stored mappings; updating or deleting a virtual mapping by its bucket id is not generated',
        'for a database that has only virtual mappings the check requires at most one default (a bucket named "db/rp" alone yields a '
        'mapping without a default by design); exactly one is required as soon as a stored mapping exists',
        'which mapping is promoted when the default is deleted or unset is not fixed by the property: a different choice than the '
        'specification\'s (lowest id) is reported as drift after the contract was checked on the real state',
    ]


META = {
    'level': 'model_checking',
    'text': 'TLC checks on DBRP.tla (records + default register + FindMany with virtual mappings, code-shaped Create/Update/Delete) '
            'that every (org, db, rp) resolves to at most one bucket, every database with a stored mapping has exactly one default which '
            'the empty-rp lookup returns, and the register is never dangling, for all histories to the bound; every history is replayed '
            'on the real dbrp.Service, the contract is evaluated on the real FindMany results after every step and all read-API results '
            'of the final state are compared with the spec.',
    'design_ref': '5.18',
    'note': 'Trusted: TLC, the driver\'s contract predicate over FindMany results, a fixed in-memory bucket service, inmem kv store.',
    'technique': 'TLA+ spec (DBRP.tla) + TLC exhaustive + replay of every TLC history on the real dbrp service',
    'quick_s': 150, 'thorough_s': 1500,
}
