"""Helpers shared by the TSMMerge.tla checks (C37, C06, C04): configuration text, TLC run + dump -> replay cases,
seeded explicit inputs (the spec's NPicks / PickAt constants) rendered as a generated module that extends TSMMerge."""
import vlib

ALL_TYPES = ['float', 'integer', 'unsigned', 'string', 'boolean']


def cfg_text(family, nts, nfiles=1, nkeys=1, maxblocks=2, tombmode='none', keymode='full', maxlen=0, ppbs='PPBSmall',
             npicks=0, invariants=()):
    lines = ['SPECIFICATION Spec', 'CONSTANTS',
             f'  Family = "{family}"', f'  NTs = {nts}', f'  NFiles = {nfiles}', f'  NKeys = {nkeys}',
             f'  MaxBlocks = {maxblocks}', f'  TombMode = "{tombmode}"', f'  KeyMode = "{keymode}"', f'  MaxLen = {maxlen}',
             f'  PPBs <- {ppbs}', f'  NPicks = {npicks}', f'  PickAt <- {"ThePick" if npicks else "NoPick"}']
    if invariants:
        lines.append('INVARIANTS ' + ' '.join(invariants))
    lines.append('CHECK_DEADLOCK FALSE')
    return '\n'.join(lines) + '\n'


def run_family(ctx, cfg, *, spec='TSMMerge', extra_files=None, workers=None, timeout=3600, tag=None):
    """Model-check one configuration (invariants = implementation layer agrees with the contract layer on every input),
    guard against vacuity, and return (TLCResult, list of case states)."""
    r = ctx.tlc(spec, cfg, workers=workers, timeout=timeout, dump=True, coverage=True, extra_files=extra_files, tag=tag)
    if r.timed_out:
        raise vlib.Inconclusive(f'TLC timed out on {spec} ({tag})')
    if not r.ok:
        tail = '\n'.join(r.stdout.splitlines()[-40:])
        raise vlib.Inconclusive(f'TLC did not pass on {spec} ({tag}): violated={r.violated}\n{tail}')
    ctx.check_coverage(r, ['DoGenInput', 'DoExpect'] + (['DoLoadPick'] if spec != 'TSMMerge' else []))
    cases = []
    n_in = 0
    for st in ctx.dump_states(r):
        op = st['c'].get('op')
        if op == 'case':
            cases.append(st)
        elif op == 'in':
            n_in += 1
    if not cases or n_in != len(cases):
        raise vlib.Inconclusive(f'{spec} ({tag}): {n_in} inputs but {len(cases)} cases in the dump')
    return r, cases


# ---------------------------------------------------------------- explicit inputs (Picks)

def tla(v):
    """Python value -> TLA+ expression (lists -> sequences, dicts -> records, ints)."""
    if isinstance(v, bool):
        return 'TRUE' if v else 'FALSE'
    if isinstance(v, int):
        return str(v)
    if isinstance(v, str):
        return '"' + v + '"'
    if isinstance(v, (list, tuple)):
        return '<<' + ', '.join(tla(x) for x in v) + '>>'
    if isinstance(v, dict):
        return '[' + ', '.join(f'{k} |-> {tla(x)}' for k, x in v.items()) + ']'
    raise TypeError(type(v))


def picks_module(name, picks):
    """Module <name> EXTENDS TSMMerge and defines ThePick(n) as a balanced IF tree over n, so that TLC builds only the
    requested input (a single big tuple constant would be rebuilt on every reference)."""
    def tree(lo, hi, ind):
        if lo == hi:
            return tla(picks[lo - 1])
        mid = (lo + hi) // 2
        pad = ' ' * ind
        return (f'IF n <= {mid}\n{pad}THEN {tree(lo, mid, ind + 2)}\n{pad}ELSE {tree(mid + 1, hi, ind + 2)}')
    return f'---- MODULE {name} ----\nEXTENDS TSMMerge\nThePick(n) ==\n  {tree(1, len(picks), 2)}\n====\n'


def rand_slot(rng, nts, maxblocks, p_absent, p_tomb, max_tombs):
    """One key/file slot: <= maxblocks ordered disjoint non-empty blocks over 0..nts-1 and up to max_tombs tombstone ranges."""
    if rng.random() < p_absent:
        return {'blocks': [], 'tombs': []}
    ts = [t for t in range(nts) if rng.random() < 0.6]
    if not ts:
        ts = [rng.randrange(nts)]
    blocks = [ts]
    if maxblocks >= 2 and len(ts) >= 2 and rng.random() < 0.55:
        cut = rng.randrange(1, len(ts))
        blocks = [ts[:cut], ts[cut:]]
    tombs = []
    while len(tombs) < max_tombs and rng.random() < p_tomb:
        lo = rng.randrange(nts)
        hi = rng.randrange(lo, nts)
        tombs.append([lo, hi])
    return {'blocks': blocks, 'tombs': tombs}


def rand_files(rng, nfiles, nkeys, nts, maxblocks=2, p_tomb=0.35, max_tombs=2):
    files = []
    for _ in range(nfiles):
        while True:
            f = [rand_slot(rng, nts, maxblocks, 0.25 if nkeys > 1 else 0.0, p_tomb, max_tombs) for _ in range(nkeys)]
            if any(s['blocks'] for s in f):
                break
        files.append(f)
    return files


def dedupe(picks):
    seen, out = set(), []
    for p in picks:
        k = tla(p)
        if k not in seen:
            seen.add(k)
            out.append(p)
    return out
