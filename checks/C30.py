"""C30 — tenant metadata stays unique and internally consistent.  Spec: Tenant.tla (record tables + name indexes as the
code keeps them; contract = uniqueness, lookup/record agreement, cascade of organization delete, system buckets intact).
Binding: every TLC history (all op sequences up to the bound over 2 colliding names) is replayed on the real
tenant.Service over an in-memory kv store; after every step the whole service is listed, every by-name lookup and the
index-backed per-organization listing is compared with the records, and the final listing must equal the spec's tables."""
import json
import threading
import vlib

NVARIANTS = 6          # name concretisations known to the driver (harness/cmd/tenant/main.go: nameVariants)
ACTIONS = ['CreateOrg', 'RenameOrg', 'DeleteOrg', 'CreateBkt', 'RenameBkt', 'DeleteBkt', 'CreateUser', 'RenameUser',
           'DeleteUser', 'AddMember']


def asmap(v):
    """TLC prints a function with domain 1..n as a tuple; normalise to {key: value}."""
    if isinstance(v, list):
        return {str(i + 1): x for i, x in enumerate(v)}
    return v


def case_of(st):
    """One dumped state -> the case as a JSON string without its closing brace (the name variant is appended later)."""
    orgs = asmap(st['orgs'])
    bkts = asmap(st['bkts'])
    users = asmap(st['users'])
    c = {'steps': st['hist'],
         'final': {'orgs': sorted([int(k), v] for k, v in orgs.items()),
                   'bkts': sorted([int(k), v['o'], v['n']] for k, v in bkts.items()),
                   'users': sorted([int(k), v] for k, v in users.items()),
                   'urms': sorted(st['urms'])}}
    return json.dumps(c, separators=(',', ':'))[:-1]


def with_nv(base, nv, bulk=0):
    return f'{base},"nv":{nv},"bulk":{bulk}}}\n'


BULKS = [99, 100, 150, 201]   # filler buckets per organization (99 + the 2 system buckets is the first count above one page of 100)


def deletes_org(base):
    if 'deleteOrg' not in base:
        return False
    return any(x['a'] == 'deleteOrg' and x['ok'] for x in json.loads(base + '}')['steps'])


def run(ctx):
    tier = ctx.tier
    box = {}

    def mc():
        try:
            box['mc'] = ctx.tlc('Tenant', f'Tenant.MC_{tier}.cfg', timeout=1200, coverage=True, workers=max(1, vlib.NCPU // 2), tag='mc')
        except Exception as e:  # noqa
            box['mc_err'] = e

    def build():
        try:
            box['bin'] = ctx.go_build('tenant')
        except Exception as e:  # noqa
            box['bin_err'] = e
    build()   # first, alone: the Go build is itself parallel
    th = [threading.Thread(target=mc)]   # model checking runs beside behaviour generation, each with half of the workers
    for t in th:
        t.start()
    # all histories up to the bound (hist is part of the fingerprint in the Gen configs)
    g = ctx.tlc_must_pass('Tenant', f'Tenant.Gen_{tier}.cfg', timeout=1500, dump=True, workers=max(1, vlib.NCPU // 2), tag='gen')
    cases = []
    maxlen = 0
    for st in ctx.dump_states(g):
        if not st['hist']:
            continue
        maxlen = max(maxlen, len(st['hist']))
        cases.append(case_of(st))
    total = len(cases)
    budget = 200000 if tier == 'quick' else 700000
    chosen = vlib.sample_list(ctx.rng, cases, budget)
    exhaustive = len(chosen) == total
    # every history under one seed-chosen name concretisation; a seed-chosen tenth under every other one as well
    jobs = []
    for st in chosen:
        nv = ctx.rng.randrange(NVARIANTS)
        jobs.append(with_nv(st, nv))
    extra = vlib.sample_list(ctx.rng, chosen, len(chosen) // (10 if tier == 'quick' else 3))
    for st in extra:
        for nv in range(NVARIANTS):
            jobs.append(with_nv(st, nv))
    # "bulk" concretisation for a seed-chosen share of the histories that delete an organization: every organization carries
    # >= 99 filler buckets (more than one listing page together with its system buckets); all of them must go with it
    withdel = [st for st in chosen if deletes_org(st)]
    bulk = vlib.sample_list(ctx.rng, withdel, min(len(withdel) // 2 + 1, 1500 if tier == 'quick' else 20000))
    for st in bulk:
        jobs.append(with_nv(st, ctx.rng.randrange(NVARIANTS), ctx.rng.choice(BULKS)))
    nbulk = len(bulk)
    # longer histories: random behaviours of a deeper configuration, each replayed with its final tables
    nsim = 0
    s = ctx.tlc('Tenant', f'Tenant.Sim_{tier}.cfg', timeout=900, simulate={'num': max(1, (6000 if tier == 'quick' else 30000) // vlib.NCPU)},   # TLC's num is per worker
                depth=7 if tier == 'quick' else 8, workers=vlib.NCPU, tag='sim')
    if s.timed_out or not s.ok:
        raise vlib.Inconclusive('Tenant simulate run failed: ' + s.stdout[-1500:])
    for b in ctx.sim_behaviours(s):
        st = b[-1]
        if st['hist']:
            base = case_of(st)
            jobs.append(with_nv(base, ctx.rng.randrange(NVARIANTS)))
            nsim += 1
            if deletes_org(base) and ctx.rng.random() < 0.1:
                jobs.append(with_nv(base, ctx.rng.randrange(NVARIANTS), ctx.rng.choice(BULKS)))
                nbulk += 1
    for t in th:
        t.join()
    if 'mc_err' in box:
        raise box['mc_err']
    if 'bin_err' in box:
        raise box['bin_err']
    r = box['mc']
    if r.timed_out or not r.ok:
        raise vlib.Inconclusive(f'TLC did not pass on Tenant MC: violated={r.violated}\n' + '\n'.join(r.stdout.splitlines()[-30:]))
    ctx.check_coverage(r, ACTIONS + ['RemoveMember'])
    jpath = ctx.tmp('jobs.ndjson')
    with open(jpath, 'w') as f:
        f.writelines(jobs)
    res, lines = ctx.replay(box['bin'], jpath, timeout=1500, procs=vlib.NCPU)
    ctx.absorb(res, lines)
    ctx.exhaustive = exhaustive
    ctx.extra_cov['histories_total'] = total
    ctx.extra_cov['histories_replayed'] = len(chosen)
    ctx.extra_cov['max_history_length'] = maxlen
    ctx.extra_cov['cases_with_all_name_variants'] = len(extra)
    ctx.extra_cov['simulated_long_histories'] = nsim
    ctx.extra_cov['bulk_cases'] = nbulk
    ctx.extra_cov['histories_with_org_delete'] = len(withdel)
    ctx.rule = ('every TLC history (every prefix is its own case) of create/rename/delete of organizations, buckets and users and '
                'membership creation/removal over the 2-name domain {n1,n2} plus the reserved name _tasks, up to the bound of the Gen config '
                '(sampled by seed only when above the budget), plus TLC-simulated longer histories; each history runs under a seed-chosen concretisation of the two names '
                '(plain, prefix of each other, inner spaces, non-ascii/case, surrounding whitespace, slash) and a seed-chosen part under '
                'all six; a seed-chosen share of the histories that delete an organization additionally runs in the bulk concretisation '
                '(every organization carries 99..201 filler buckets that must exist exactly as long as it does); non-trivial = the history contains a refused operation or a successful rename/delete; distinct = distinct '
                '(operation sequence, final tables)')
    ctx.assumptions += [
        'sequential histories through the tenant.Service API (no concurrent operations; the several kv transactions of '
        'CreateOrganization/DeleteOrganization are not interleaved with other operations)',
        'a task service is installed (as in the server); memberships are only created for organizations that exist, because '
        'CreateUserResourceMapping does not check the resource',
        'in-memory kv store; ids are opaque and bound to spec ids in creation order',
    ]


META = {
    'level': 'model_checking',
    'text': 'TLC checks on Tenant.tla (tables + name indexes, code-shaped actions) that names stay unique, indexes are the exact '
            'inverse of the tables, nothing refers to a deleted organization and system buckets stay intact, for all histories to '
            'the bound; every history is replayed on the real tenant.Service and the complete listing, every by-name lookup and the '
            'index-backed listings are compared with the spec tables.',
    'design_ref': '5.18',
    'note': 'Trusted: TLC, the driver\'s projection (listing + lookups through the public service API), inmem kv store standing in '
            'for bolt.',
    'technique': 'TLA+ spec (Tenant.tla) + TLC exhaustive + replay of every TLC history on the real tenant service',
    'quick_s': 120, 'thorough_s': 1200,
}
