"""C12 — the line protocol parser is total and accepts exactly well-formed lines.  Spec: LineProtocol.tla.
The scanner (scanLine, scanKey, scanFields, scanNumber/Boolean, walkFields, scanTime, parsePoint) is transcribed as a
token automaton; for every generated input the spec gives the per-line outcome (observation of the returned point, or
the offsets of the text the error must name).  Generators, all from the same module:
 (a) whole-line exhaustive: every string over Sigma (14 structural characters incl. newline) up to MaxLen,
 (b) section-wise exhaustive: measurement / tag key / tag value / field key (all raw strings up to SecLen) and field
     value (up to ValLen) in simple and escape-heavy contexts,
 (c) batches of <= 3 lines over 11 line classes (good, bad, comment, blank, CRLF-terminated, unterminated string...),
 (p) key-length boundary 65535 +- 2, timestamp range boundaries at every precision (symbolic in the spec) and literal
     timestamp tokens far outside int64 / with leading zeros (verdict by decimal-string arithmetic in the spec).
Binding: every input is replayed on models.ParsePointsWithPrecision and http/points.Parser under recover + watchdog;
point invariants are checked on every returned point without an oracle; acceptance, the returned structure and the
lines named by the error are compared exactly with the spec's outcome."""
import json
import multiprocessing
import os
import re
import time

import tlaval
import vlib

STR = re.compile(r'"((?:[^"\\]|\\.)*)"')
FAST = re.compile(r'State \d+:\n/\\ inp = ([^\n]*)\n/\\ exp = \[([^\n]*)\]\n/\\ mode = "(\w+)"\n/\\ line = (<<[^\n]*>>)\n?$')
FIELD_SPLIT = re.compile(r', (?=\w+ \|-> )')
SIMPLE_OUT = re.compile(r'<<(?:<<\d+, \d+>>(?:, )?)*>>$')
PAIR = re.compile(r'<<(\d+), (\d+)>>')
UNESC = {'\\\\': '\\', '\\"': '"', '\\n': '\n', '\\r': '\r', '\\t': '\t'}
TYPE = {'float': 'F', 'int': 'I', 'uint': 'U', 'bool': 'B', 'string': 'S', 'empty': 'E'}


def chars(text):
    """<<"a", "\\n", ...>> -> python string"""
    return ''.join([UNESC.get(m, m) for m in STR.findall(text)])


def conv_out(out):
    res = []
    for o in out:
        if isinstance(o, list):
            res.append(o)
        else:
            res.append({'name': ''.join(o['name']),
                        'tags': [[''.join(t['k']), ''.join(t['v'])] for t in o['tags']],
                        'fields': [[''.join(f['k']), TYPE[f['t']], ''.join(f['v']), bool(f['bad'])] for f in o['fields']],
                        'ts': ''.join(o['ts'])})
    return res


def tlc_dump(ctx, cfg, timeout, must_pass=True, count=True):
    """TLC run with -dump.  Development aid: with VERIF_LP_DUMP_CACHE=<dir> the dump of a configuration is kept in <dir>
    and reused by later runs (TLC's part does not depend on the tree under test or on the seed); unset in normal use."""
    cache = os.environ.get('VERIF_LP_DUMP_CACHE')
    if cache:
        os.makedirs(cache, exist_ok=True)
        dp, mp = os.path.join(cache, cfg + '.dump'), os.path.join(cache, cfg + '.json')
        if os.path.exists(dp) and os.path.exists(mp):
            meta = json.load(open(mp))
            r = vlib.TLCResult()
            r.ok, r.generated, r.distinct, r.dump_path, r.cached = True, meta['generated'], meta['distinct'], dp, True
            ctx.states += r.distinct
            ctx.transitions += r.generated
            ctx.tlc_runs.append({'spec': 'LineProtocol', 'cfg': cfg, 'generated': r.generated, 'distinct': r.distinct, 'depth': meta.get('depth', 0),
                                 'ok': True, 'violated': None, 'wall_s': 0.0, 'mode': 'bfs (dump reused from VERIF_LP_DUMP_CACHE)'})
            return r
    if must_pass:
        r = ctx.tlc_must_pass('LineProtocol', cfg, timeout=timeout, dump=True)
    else:
        r = ctx.tlc('LineProtocol', cfg, timeout=timeout, dump=True, count=count)
    r.cached = False
    if cache and r.ok:
        import shutil
        shutil.copy(r.dump_path, dp)
        json.dump({'generated': r.generated, 'distinct': r.distinct, 'depth': r.depth}, open(mp, 'w'))
    return r


def iter_blocks(path, start=0, end=None, chunk=32 << 20):
    """State blocks of a TLC dump (separated by an empty line) whose 'State' header starts in the byte range
    [start, end); read in chunks."""
    sep = b'\n\nState '
    with open(path, 'rb') as f:
        size = f.seek(0, 2)
        if end is None or end > size:
            end = size

        def align(off):
            """offset of the first block header at or after off"""
            if off <= 0:
                return 0
            f.seek(max(0, off - 2))
            pos = max(0, off - 2)
            while True:
                data = f.read(1 << 20)
                if not data:
                    return size
                j = data.find(sep)
                if j >= 0:
                    return pos + j + 2
                pos += len(data) - len(sep)
                f.seek(pos)
        lo, hi = align(start), align(end) if end < size else size
        f.seek(lo)
        left = hi - lo
        rest = b''
        while left > 0:
            data = f.read(min(chunk, left))
            if not data:
                break
            left -= len(data)
            data = rest + data
            if left > 0:
                cut = data.rfind(sep)
                if cut < 0:
                    rest = data
                    continue
                rest = data[cut + 2:]
                data = data[:cut]
            else:
                rest = b''
            for blk in data.decode('utf-8', 'replace').split('\n\n'):
                if blk.strip():
                    yield blk
        if rest.strip():
            for blk in rest.decode('utf-8', 'replace').split('\n\n'):
                if blk.strip():
                    yield blk


def iter_states(path, start=0, end=None):
    """Reader of the dump of the C12 generators: yields (mode, state) where state is an input item
    {txt, out, why, inv, f9, unmodelled[, classes, finalNL]} for the line generators and the plain state for mode P.
    Root states (exp = None) are skipped.  All-rejected inputs (the bulk) take a regex fast path."""
    for blk in iter_blocks(path, start, end):
        m = FAST.match(blk)
        if m:
            mode = m.group(3)
            src = m.group(4) if mode == 'A' else m.group(1)
            rec = dict(f.split(' |-> ', 1) for f in FIELD_SPLIT.split(m.group(2)))
            out = rec.get('out', '')
            if (mode == 'A' or src.startswith('<<')) and SIMPLE_OUT.match(out) and len(rec) == 6:
                yield mode, {'txt': chars(src), 'out': [[int(a), int(b)] for a, b in PAIR.findall(out)],
                             'why': [UNESC.get(x, x) for x in STR.findall(rec['why'])],
                             'inv': rec['inv'] == 'TRUE', 'f9': rec['f9'] == 'TRUE', 'f18': rec['f18'] == 'TRUE',
                             'unmodelled': rec['unmodelled'] == 'TRUE'}
                continue
        body = blk[blk.index('\n') + 1:] if blk.startswith('State ') else blk
        st = tlaval.plain(tlaval.parse_state_body(body))
        e = st['exp']
        if 'none' in e:
            continue
        mode = st['mode']
        inp = st['inp']
        if mode == 'P':
            yield mode, st
            continue
        item = {'out': conv_out(e['out']), 'why': e['why'], 'inv': e['inv'], 'f9': e['f9'], 'f18': e['f18'],
                'unmodelled': e['unmodelled']}
        if mode == 'A':
            item['txt'] = ''.join(st['line'])
        elif mode == 'C':
            item['txt'] = ''.join(inp['text'])
            item['classes'] = inp['classes']
            item['finalNL'] = inp['finalNL']
        else:
            item['txt'] = ''.join(inp)
        yield mode, item


def convert_range(path, start, end, out_prefix, maps, batch):
    """Worker: dump byte range -> ndjson case files (<out>.A.ndjson whole-line inputs in batches, <out>.BC.ndjson one
    case per input) and <out>.meta.json (counts, boundary cases)."""
    meta = {'n': {'A': 0, 'B': 0, 'C': 0}, 'acc': {'A': 0, 'B': 0, 'C': 0}, 'inv_false': 0, 'unmodelled': None, 'p': [], 'err': None}
    try:
        fa = open(out_prefix + '.A.ndjson', 'w')
        fbc = open(out_prefix + '.BC.ndjson', 'w')
        pend = []

        def flush():
            if pend:
                fa.write(json.dumps({'mode': 'lines', 'gen': 'A', 'exact': True, 'maps': maps, 'items': pend}, separators=(',', ':')) + '\n')
                pend.clear()
        for mode, st in iter_states(path, start, end):
            if mode == 'P':
                inp = st['inp']
                if 'where' in inp:
                    meta['p'].append({'mode': 'pad', 'where': inp['where'], 'total': inp['total'], 'withTag': inp['withTag'],
                                      'accept': st['exp']['accept']})
                elif 'digits' in inp:
                    meta['p'].append({'mode': 'time', 'precision': inp['precision'], 'mult': inp['mult'], 'neg': inp['neg'],
                                      'digits': inp['digits'], 'accept': st['exp']['accept']})
                else:
                    meta['p'].append({'mode': 'time', 'precision': inp['precision'], 'mult': inp['mult'], 'base': inp['base'],
                                      'k': inp['k'], 'accept': st['exp']['accept']})
                continue
            g = 'A' if mode == 'A' else 'C' if mode == 'C' else 'B'
            if st.pop('unmodelled'):
                meta['unmodelled'] = st['txt']
            meta['n'][g] += 1
            for o in st['out']:
                if isinstance(o, dict):
                    meta['acc'][g] += 1
                    break
            if not st['inv']:
                meta['inv_false'] += 1
            if g == 'A':
                pend.append(st)
                if len(pend) >= batch:
                    flush()
            else:
                if g == 'B':
                    st['section'] = mode
                st.update(mode='lines', gen=g, exact=True, maps=maps)
                fbc.write(json.dumps(st, separators=(',', ':')) + '\n')
        flush()
        fa.close()
        fbc.close()
    except Exception as e:  # noqa
        import traceback
        meta['err'] = traceback.format_exc()
    with open(out_prefix + '.meta.json', 'w') as f:
        json.dump(meta, f)


def run(ctx):
    tier = ctx.tier
    maps = 1 if tier == 'quick' else 3
    t0 = time.time()
    # one TLC run for all generators (TLC's -coverage cost model exhausts the heap on the recursive scanner operators, so
    # the vacuity guard below counts the states every action produced in the dump instead)
    cfg = f'LineProtocol.C12_{tier}.cfg'
    if tier == 'thorough':
        # whole-line inputs up to length 6 are 8.1e6 states: try them within a budget, else fall back to length 5 (the
        # section-wise generator is larger in both); the evidence records which configuration was in force
        r = tlc_dump(ctx, cfg, 780, must_pass=False, count=False)
        if r.timed_out:
            vlib.log('whole-line length 6 did not finish within 780 s on this machine: falling back to LineProtocol.C12_thorough5.cfg')
            ctx.tlc_runs[-1]['note'] = 'timed out, replaced by the thorough5 configuration'
            try:
                os.remove(r.dump_path)
            except OSError:
                pass
            cfg = 'LineProtocol.C12_thorough5.cfg'
            r = tlc_dump(ctx, cfg, 900)
        elif not r.ok:
            raise vlib.Inconclusive(f'TLC did not pass on {cfg}: violated={r.violated}\n' + '\n'.join(r.stdout.splitlines()[-40:]))
        elif not r.cached:
            ctx.states += r.distinct
            ctx.transitions += r.generated
    else:
        r = tlc_dump(ctx, cfg, 1700)
    t1 = time.time()
    # the dump is converted to case files by parallel workers, one byte range each (fork: nothing is pickled)
    size = os.path.getsize(r.dump_path)
    nproc = max(1, min(vlib.NCPU, 12, size // (8 << 20) + 1))
    procs = []
    for i in range(nproc):
        pre = ctx.tmp(f'conv/part{i}')
        p = multiprocessing.get_context('fork').Process(
            target=convert_range, args=(r.dump_path, size * i // nproc, size * (i + 1) // nproc, pre, maps, 64))
        p.start()
        procs.append((p, pre))
    n = {'A': 0, 'B': 0, 'C': 0}
    acc = {'A': 0, 'B': 0, 'C': 0}
    pcases = []
    model_inv_false = 0
    for p, pre in procs:
        p.join()
        try:
            meta = json.load(open(pre + '.meta.json'))
        except Exception as e:
            raise vlib.Inconclusive(f'dump converter died: {e}')
        if meta['err']:
            raise vlib.Inconclusive('dump converter failed: ' + meta['err'][-1500:])
        if meta['unmodelled'] is not None:
            raise vlib.Inconclusive(f'input {meta["unmodelled"]!r} reaches an unmodelled part of the scanner')
        for g in n:
            n[g] += meta['n'][g]
            acc[g] += meta['acc'][g]
        model_inv_false += meta['inv_false']
        pcases += meta['p']
    t2 = time.time()
    npad = sum(1 for c in pcases if c['mode'] == 'pad')
    nfar = sum(1 for c in pcases if 'digits' in c)
    r.coverage = {'ExtendLine': n['A'], 'GenSection': n['B'], 'GenBatch': n['C'], 'GenPad': npad,
                  'GenTime': len(pcases) - npad - nfar, 'GenFarTime': nfar}
    ctx.check_coverage(r, ['ExtendLine', 'GenSection', 'GenBatch', 'GenPad', 'GenTime', 'GenFarTime'])
    for g in n:
        if acc[g] == 0:
            raise vlib.Inconclusive(f'vacuity guard: generator {g} has no accepted line')
    vlib.log(f'TLC {t1 - t0:.0f}s, dump converted in {t2 - t1:.0f}s by {nproc} workers: ' + ', '.join(f'{g}: {n[g]} inputs ({acc[g]} accepted)' for g in n))
    if not r.cached:
        os.remove(r.dump_path)
    binary = ctx.go_build('lp')
    stats = {g: {'inputs': n[g], 'inputs_with_accepted_line': acc[g]} for g in n}
    for kind in ('BC', 'A'):
        for p, pre in procs:
            path = f'{pre}.{kind}.ndjson'
            if os.path.getsize(path) == 0:
                continue
            res, lines = ctx.replay(binary, path, timeout=1500, case_timeout='900s')
            ctx.absorb(res, lines, sample=1)
            os.remove(path)
    res, lines = ctx.replay(binary, pcases, timeout=600, case_timeout='900s')
    ctx.absorb(res, lines, sample=1)
    stats['P'] = {'pad_cases': npad, 'time_boundary_cases': len(pcases) - npad - nfar, 'time_far_token_cases': nfar}
    nontrivial = sum(acc.values()) + len(pcases)
    all_results = sum(n.values())
    vlib.log(f'replay done {time.time() - t2:.0f}s')

    ctx.exhaustive = True
    ctx.extra_cov['generators'] = stats
    ctx.extra_cov['config_in_force'] = cfg
    ctx.extra_cov['inputs_replayed'] = all_results + len(pcases)
    ctx.extra_cov['inputs_with_accepted_line'] = nontrivial
    ctx.extra_cov['model_level_point_invariant_failures'] = model_inv_false
    ctx.extra_cov['exact_acceptance_compared'] = True
    ctx.extra_cov['concretisations_per_input'] = maps
    # distinct non-trivial inputs are counted from the spec's outcomes (whole-line inputs are replayed in batches of 64)
    ctx.nontrivial_sigs = set(range(nontrivial))
    ctx.rule = ('every input TLC generates is replayed: (a) all strings over the 14-character structural alphabet up to MaxLen, '
                '(b) every raw section text up to SecLen/ValLen in 4 contexts, (c) every batch of <= 3 lines over 11 line classes with '
                'and without final newline, (p) key-length and timestamp-range boundaries; each on ParsePointsWithPrecision and '
                f'http/points.Parser, {maps} order-preserving concretisation(s) of `a`/`1`, accepted inputs at every precision; '
                'non-trivial = the spec accepts at least one line of the input (counted from the spec outcomes; boundary cases all count)')
    ctx.assumptions += [
        'exact acceptance IS compared: the acceptor of LineProtocol.tla is a transcription of the scanner; compared per input: number '
        'and order of returned points, measurement, tags, field keys/types/values, timestamp, and the line texts named by the error',
        'totality over arbitrary bytes is not decided by a model: decided are totality, point invariants and acceptance over these '
        'exhaustive small scopes (every character outside the structural alphabet is an ordinary character for the scanner)',
        'numeric range checks (>= 19 digits), scientific notation and reserved tag keys are outside the generators (the spec flags '
        'any input that would reach them as unmodelled)',
    ]


META = {
    'level': 'model_checking',
    'text': 'TLC enumerates every input of three generators (whole-line exhaustive, section-wise exhaustive, batches of line '
            'classes) and computes the per-line outcome with the transcribed scanner automaton, checking on the model that batches '
            'are parsed line by line and that accepted lines satisfy the point invariants outside the class of finding F9; every '
            'input is replayed on the real parser under recover and a watchdog, the returned points are checked against the point '
            'invariants and compared exactly with the spec outcome (points, structure, lines named by the error).',
    'design_ref': '5.19',
    'note': 'Trusted: TLC, the dump reader of this check, the driver\'s invariant checks and comparison. The acceptor is a '
            'transcription of the code: on the unchanged tree it agrees by construction, its value is as a regression oracle and as '
            'the generator of near-valid inputs.',
    'technique': 'TLA+ spec (LineProtocol.tla) + TLC exhaustive input enumeration + replay on models.ParsePointsWithPrecision and '
                 'http/points.Parser',
    'quick_s': 120, 'thorough_s': 1500,
}
