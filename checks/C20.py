"""C20 — storage windowed-aggregate pushdown equals aggregating the raw data.

Spec: WindowAgg.tla (Mode = "cursor").  Contract layer: Direct(points, every, offset, agg) — group the raw points by
window and aggregate (count/sum/mean stamped with the window stop, selectors with the point's own time, mean as
<<sum, count>>).  Implementation layer: CallNext = one call of *Window*ArrayCursor.Next (carried partial window,
`tmp` remainder, output capacity OutCap).  TLC checks, for every series over 0..MaxT, every (every, offset), every
aggregate and EVERY chunking of the input, that the concatenated output arrays are exactly Direct(...).

Binding: every final TLC state is a case (inputs + chunking + expected rows from the contract layer); the driver
harness/cmd/winagg replays it on storage/reads (NewWindowAggregateResultSet over a fake SeriesCursor whose cursor
iterators yield exactly the chosen arrays, buffer re-used between calls like the TSM cursors) for every value type on
which the aggregate is defined, under a seed-dependent concretisation of times/values, and compares timestamps and
values exactly.  A second concretisation stretches every abstract window into 500 concrete windows so that the code's
MaxPointsPerBlock = 1000 output capacity and its carry-over (`tmp`) path are crossed (spec OutCap 2 <-> 1000)."""
import json
import os
import re

import tlaval
import vlib

AGGS = ['count', 'sum', 'min', 'max', 'first', 'last', 'mean']


def cfg_text(maxt, everys, valpats, aggs, outcap):
    q = lambda xs: '{' + ', '.join('"%s"' % x for x in xs) + '}'
    return f'''SPECIFICATION Spec
CONSTANTS
  MaxT = {maxt}
  Everys = {{{', '.join(str(e) for e in everys)}}}
  ValPats = {q(valpats)}
  Aggs = {q(aggs)}
  OutCap = {outcap}
  Mode = "cursor"
  QStarts = {{0}}
  QStops = {{1}}
  TimeCols = {{"none"}}
  EWSAsFound = FALSE
INVARIANTS TypeOK CursorPrefix CursorContract FullArrays
CHECK_DEADLOCK FALSE
'''


def final_states(path, marker, wanted):
    """Fast scan of a TLC dump: only blocks containing the line `marker` are parsed, and only the wanted variables."""
    def parse(buf):
        st = {}
        for part in re.split(r'(?:^|\n)/\\ ', ''.join(buf)):
            part = part.strip()
            if not part:
                continue
            name, rest = part.split(' = ', 1)
            name = name.strip()
            if name in wanted:
                st[name] = tlaval.plain(tlaval.P(rest).value())
        return st
    buf, keep = [], False
    with open(path) as f:
        for line in f:
            if line.startswith('State ') and line.rstrip().endswith(':'):
                if keep:
                    yield parse(buf)
                buf, keep = [], False
            else:
                buf.append(line)
                if line.startswith(marker):
                    keep = True
    if keep:
        yield parse(buf)


def to_case(st, outcap):
    c = st['c']
    return {'mode': 'cursor', 'pts': c['pts'], 'e': c['e'], 'o': c['o'], 'agg': c['agg'],
            'lens': [len(ch) for ch in c['chunks']], 'exp': st['exp'],
            'outlens': [len(a) for a in st['outs']], 'outcap': outcap, 'stretch': 1}


def run(ctx):
    tier = ctx.tier
    binary = ctx.go_build('winagg')
    if tier == 'quick':
        slices = [dict(maxt=5, everys=[1, 2, 3, 4], valpats=['up', 'zig'], aggs=AGGS, outcap=2)]
        budget, nstretch = None, 300
    else:
        # one TLC run per aggregate keeps each dump below 1 GB; OutCap 1 and 3 are checked on a smaller domain
        slices = [dict(maxt=7, everys=[1, 2, 3, 4], valpats=['up', 'down', 'zig'], aggs=[a], outcap=2) for a in AGGS]
        slices += [dict(maxt=5, everys=[1, 2, 3, 4], valpats=['zig'], aggs=AGGS, outcap=1),
                   dict(maxt=5, everys=[1, 2, 3, 4], valpats=['zig'], aggs=AGGS, outcap=3)]
        budget, nstretch = None, 3000
    total_cases = replayed = 0
    multi_chunk = 0
    for sl in slices:
        r = ctx.tlc_must_pass('WindowAgg', cfg_text(**sl), timeout=1500, dump=True, coverage=True, workers=min(vlib.NCPU, 12))
        ctx.check_coverage(r, ['Expect', 'CallNext'])
        cases = [to_case(st, sl['outcap']) for st in final_states(r.dump_path, '/\\ done = TRUE', {'c', 'exp', 'outs'})]
        try:
            os.remove(r.dump_path)
        except OSError:
            pass
        if not cases:
            raise vlib.Inconclusive('no final states in the TLC dump')
        total_cases += len(cases)
        multi_chunk += sum(1 for c in cases if len(c['lens']) > 1)
        chosen = vlib.sample_list(ctx.rng, cases, budget)
        # stretched concretisation: cases whose output crosses the capacity at least once
        if sl['outcap'] * 500 == 1000:
            big = [c for c in cases if len(c['exp']) >= 3]
            for c in vlib.sample_list(ctx.rng, big, max(1, nstretch // len(slices))):
                chosen.append(dict(c, stretch=500))
        replayed += len(chosen)
        res, lines = ctx.replay(binary, chosen, timeout=1500)
        ctx.absorb(res, lines)
    ctx.exhaustive = True   # every final state of every slice is replayed
    ctx.extra_cov['cases_total'] = total_cases
    ctx.extra_cov['cases_replayed'] = replayed
    ctx.extra_cov['cases_with_several_input_arrays'] = multi_chunk
    ctx.rule = ('case = (series over 0..MaxT, value pattern, every in 1..4, offset in -(every-1)..every-1, aggregate, chunking of the '
                'input into arrays); every case is model-checked (all chunkings, OutCap of the slice) and the final TLC states are '
                'replayed on storage/reads for each value type on which the aggregate is defined (count/first/last: 5 types, else 3); '
                'evaluations = (case, type) runs; non-trivial = some window holds points of two different input arrays (partial window '
                'carried across arrays) or the stretched case produces more than MaxPointsPerBlock rows (carry-over across Next calls)')
    ctx.assumptions += [
        'windows are fixed-duration (every = period, nanosecond durations); calendar windows and time zones are outside the model',
        'timestamps inside an input are strictly increasing (what the storage cursors deliver)',
        'sums stay within the value type (no overflow); float values are dyadic so float sums are exact',
    ]


META = {
    'level': 'model_checking',
    'text': 'TLC checks exhaustively (series over 0..MaxT, every 1..4, all offsets, 7 aggregates, every chunking, small output '
            'capacity) that the streaming per-array fold of the window cursors equals direct aggregation of the raw points; every '
            'final state is replayed on the real storage/reads window aggregate cursors for all value types, plus a stretched '
            'concretisation that crosses the real 1000-row output capacity.',
    'design_ref': '5.12',
    'note': 'Trusted: TLC, the driver\'s affine concretisation of times/values (window k copy r -> base+unit*((B(k)+r)*e+o+d)), '
            'exact comparison of timestamps and values. Integer-valued abstract points; float results compared bit-exactly on dyadic values.',
    'technique': 'TLA+ spec (WindowAgg.tla) + TLC exhaustive + replay of every TLC case on the real window aggregate cursors',
    'quick_s': 110, 'thorough_s': 1200,
}
