"""C01 -- read-your-writes / last-write-wins across cache snapshots and compactions.
Spec: TSMEngine.tla (contract: model, ReadEqualsModel; implementation: cache hot/snapshot, WAL segments, TSM files by
(generation, sequence), snapshot commit in five steps, compaction in three, reopen with WAL replay).
TLC: ReadEqualsModel (every key, every sub-range, both directions) + VisibleEqualsModel + structural invariants,
exhaustively on the VIEW-reduced configuration (no deletes: C03 owns them).
Binding: replay.  One history per distinct abstract engine state (see checks/_tsmengine.py) is executed on a real
tsdb.Shard with the snapshot / compaction goroutines parked at the H1 schedule points exactly where the behaviour says;
after every step every key is read over every sub-range, ascending and descending, through CreateCursorIterator -> typed
array cursors and compared for equality with the spec's model."""
import importlib.util
import os

import vlib


def _common():
    p = os.path.join(os.path.dirname(os.path.abspath(__file__)), '_tsmengine.py')
    spec = importlib.util.spec_from_file_location('_tsmengine', p)
    mod = importlib.util.module_from_spec(spec)
    spec.loader.exec_module(mod)
    return mod


def run(ctx):
    T = _common()
    tier = ctx.tier
    quick = tier == 'quick'
    sc = float(os.environ.get('VERIF_TIMEOUT_SCALE', '1') or '1')   # development on an overloaded machine only
    mc_cfg = f'TSMEngine.MC_C01_{tier}.cfg'
    if getattr(ctx, 'replay_path', None):
        return T.replay_one(ctx, 'C01', 'TSMEngine.MC_C01_quick.cfg')
    gen_cfg = f'TSMEngine.Gen_C01_{tier}.cfg'
    # 1. the design: contract invariants on every reachable abstract state
    r = ctx.tlc_must_pass('TSMEngine', mc_cfg, timeout=sc * (400 if quick else 1500), coverage=True)
    ctx.check_coverage(r, T.ALL_ACTIONS)
    # 2. behaviours: one history per distinct abstract state of the generation configuration
    g = ctx.tlc_must_pass('TSMEngine', gen_cfg, timeout=sc * (400 if quick else 1200), dump=True)
    hs, stats = T.histories(ctx, g.dump_path, want=250 if quick else 6000, budget_s=20 if quick else 420,
                            exact_leaves=not quick)
    T.require_actions(stats, T.ALL_ACTIONS)
    consts = T.cfg_constants(gen_cfg)
    nkeys, ntimes = T.set_size(consts['Keys']), T.set_size(consts['Times'])
    nconc = 1 if quick else 2
    cases = T.make_cases('C01', hs, nkeys, ntimes, lambda i: [i * nconc + j for j in range(nconc)])
    binary = ctx.go_build('engine')
    res, lines = ctx.replay(binary, cases, par=1, timeout=sc * (600 if quick else 1700), case_timeout='90s')
    ctx.absorb(res, lines)
    if not quick:
        # half-applied writes (CacheWrite ; WriteAck under Engine.mu.RLock, parked at write.afterCacheWrite)
        sp = ctx.tlc_must_pass('TSMEngine', 'TSMEngine.MC_C01_split.cfg', timeout=sc * 600, dump=True, coverage=True)
        ctx.check_coverage(sp, ['CacheWrite', 'WriteAck', 'SnapBegin', 'SnapReplace', 'CompactMerge', 'Reopen'])
        shs, sstats = T.histories(ctx, sp.dump_path, want=1500, budget_s=200, exact_leaves=True)
        sc_consts = T.cfg_constants('TSMEngine.MC_C01_split.cfg')
        scases = T.make_cases('C01', shs, T.set_size(sc_consts['Keys']), T.set_size(sc_consts['Times']), lambda i: [i])
        sres, slines = ctx.replay(binary, scases, par=1, timeout=sc * 900, case_timeout='90s')
        ctx.absorb(sres, slines)
        ctx.extra_cov['split_writes'] = {'generation': sstats, 'cases_replayed': len(scases)}
    ctx.exhaustive = bool(stats.get('exact_leaves')) and stats.get('selected') == stats.get('leaves')
    ctx.extra_cov['generation'] = stats
    ctx.extra_cov['cases_replayed'] = len(cases)
    ctx.extra_cov['features_exercised'] = T.feature_counts(res)
    ctx.extra_cov['mc_constants'] = T.cfg_constants(mc_cfg)
    ctx.extra_cov['gen_constants'] = consts
    ctx.rule = ('one history per distinct abstract engine state of the generation configuration (VIEW = all variables but '
                'hist; maximal histories only; quick: seeded sample of the long ones, thorough: every maximal history up to '
                'the budget, each under %d concretisations). After every step: every key x every sub-range of the abstract '
                'time domain + the whole valid domain x asc/desc through CreateCursorIterator -> array cursors, compared for '
                'equality with the model. non-trivial = the history overwrites a (key, time) with a cache snapshot, a '
                'compaction commit or a reopen between the two writes.' % nconc)
    ctx.assumptions += T.ASSUMPTIONS + ['no deletes in C01 histories (C03 owns deletes, including the snapshot window of F1)']


META = {
    'level': 'model_checking',
    'text': 'TLC checks ReadEqualsModel (every key, sub-range, direction) on every reachable state of the TSMEngine design '
            '(writes with overwrites/out-of-order/duplicates in a batch, five-step snapshot commit, three-step compaction of '
            'contiguous groups, reopen with WAL replay); one history per distinct abstract state is replayed on a real '
            'tsdb.Shard with the snapshot/compaction goroutines parked at schedule points, and every read is compared for '
            'equality with the model.',
    'design_ref': '5.1',
    'note': 'Trusted: TLC, the hook placement (H1, add-only), the driver\'s comparison (equality of (time,value) lists). '
            'Small scope: 2 keys x 2-3 timestamps, <= 4 points, <= 2 snapshots, <= 2 compactions, 1 reopen.',
    'technique': 'TLA+ spec (TSMEngine.tla) + TLC exhaustive + replay of TLC histories on the real tsm1 engine with forced schedules',
    'quick_s': 150, 'thorough_s': 1700,
}
