"""C24 — the task scheduler dispatches each due run once, in order, stops on release, reports the earliest due time and
does not spin.  Spec: Scheduler.tla (TreeScheduler: queue, timer, main loop, workers, mock clock) + TraceScheduler.tla.

1. TLC checks the contract (OncePerDueTime, NoMissedRun, NoSelfConcurrency, NoDispatchAfterRelease, WhenStrict,
   TimerCoversQueue, NoSpin) on every interleaving of API calls, timer fires, loop passes and worker steps (MC_*).
2. Leads: (a) on the pre-repair model (NegReset) TLC finds the NoSpin counterexample; its API steps are executed on the
   real scheduler with the real clock and the H2 loop counter is sampled over 200 ms in which nothing is due;
   (b) TLC shows that the strict NoStartAfterRelease is violated by the design (run handed to a worker, Release
   returns, Execute is called); the window is forced on the real code by the replay below (known finding).
3. Replay (spec -> code): every history up to the bound (Gen_*, sampled by seed above the budget) and random deep
   behaviours (Sim) are executed step by step on a real TreeScheduler with clock.Mock, 2 workers, parked workers and a
   blocking executor; before each step parked runs, executing runs, When() and the loop-iteration delta are compared
   with the specification.
4. Trace validation (code -> spec): seeded concurrent workloads are recorded (call/ret/recv/start/end/ckpt/add) and
   accepted by TraceScheduler.tla, including every value returned by When().
"""
import concurrent.futures as cf
import json
import os
import re

import tlaval
import vlib

ACTIONS = ['Schedule', 'Release', 'Advance', 'TimerFire', 'LoopWake', 'Pass', 'Start', 'Finish', 'Ready']


def _blocks(path):
    buf = []
    with open(path) as f:
        for line in f:
            if line.startswith('State ') and line.rstrip().endswith(':'):
                if buf:
                    yield ''.join(buf)
                buf = []
            else:
                buf.append(line)
    if buf:
        yield ''.join(buf)


def _closed_histories(path):
    """Raw dump blocks of the states whose history was closed by the End action (maximal histories)."""
    return [b for b in _blocks(path) if '"end"' in b]


def _case_of_block(b):
    st = tlaval.plain(tlaval.parse_state_body(b))
    return {'mode': 'replay', 'prof': st['prof'], 'steps': st['hist']}


def _validate(ctx, cfg, trace_path, tag, timeout):
    r = ctx.tlc('TraceScheduler', cfg, workers=1, timeout=timeout, extra_files={'trace.ndjson': trace_path}, dfs=True, tag=tag)
    hw = None
    m = re.search(r'@@HW (\d+) of (\d+)', r.stdout)
    if m:
        hw = (int(m.group(1)), int(m.group(2)))
    return r, hw


def _late_start_pattern(lines):
    """Locate (for the report) the first Execute entered after a Release of that task had returned with no overlapping
    Schedule call; also tells whether its recv line precedes that return (the verdict itself comes from TLC)."""
    rel_ret, recv_at, pend_sched, pend_rel = {}, {}, {}, {}
    for i, e in enumerate(lines):
        ev = e.get('ev')
        if ev == 'prof':
            rel_ret, recv_at, pend_sched, pend_rel = {}, {}, {}, {}
        elif ev == 'call' and e.get('op') == 'schedule':
            rel_ret.pop(e['t'], None)
            pend_sched[e['t']] = pend_sched.get(e['t'], 0) + 1
            for g, (t, _) in list(pend_rel.items()):
                if t == e['t']:
                    pend_rel[g] = (t, False)
        elif ev == 'ret' and e.get('op') == 'schedule':
            pend_sched[e['t']] = pend_sched.get(e['t'], 1) - 1
        elif ev == 'call' and e.get('op') == 'release':
            pend_rel[e['g']] = (e['t'], pend_sched.get(e['t'], 0) == 0)
        elif ev == 'ret' and e.get('op') == 'release':
            t, clean = pend_rel.pop(e['g'], (e['t'], False))
            if clean:
                rel_ret.setdefault(t, i)
        elif ev == 'recv':
            recv_at[(e['t'], e['sf'])] = i
        elif ev == 'start' and e['t'] in rel_ret:
            r = recv_at.get((e['t'], e['sf']))
            return (r is not None and r < rel_ret[e['t']]), i
    return False, None


def run(ctx):
    tier = ctx.tier
    quick = tier == 'quick'
    nw = max(1, vlib.NCPU // 2)      # two TLC runs at a time, together at most NCPU workers
    ts = float(os.environ.get('VERIF_TIMEOUT_SCALE', '1') or 1)   # > 1 on a heavily loaded machine
    binary = ctx.go_build('sched')

    # ------------------------------------------------------------ TLC runs (in parallel, each with a few workers)
    jobs = {
        'mc': dict(spec='Scheduler', cfg=f'Scheduler.MC_{tier}.cfg', timeout=ts * (420 if quick else 1700), coverage=True, workers=nw),
        'gen': dict(spec='Scheduler', cfg=f'Scheduler.Gen_{tier}.cfg', timeout=ts * (420 if quick else 1500), dump=True, workers=nw),
        'lead_spin': dict(spec='Scheduler', cfg='Scheduler.Lead_NoSpin.cfg', timeout=ts * 420, workers=1, count=False),
        'lead_rel': dict(spec='Scheduler', cfg='Scheduler.Lead_Release.cfg', timeout=ts * 420, workers=1, count=False),
        'sim': dict(spec='Scheduler', cfg='Scheduler.Sim.cfg', timeout=ts * (420 if quick else 900), workers=nw,
                    simulate={'num': 150 if quick else 1500}, depth=70 if quick else 110, count=False),
    }
    res = {}
    with cf.ThreadPoolExecutor(max_workers=2) as ex:
        futs = {k: ex.submit(lambda kw: ctx.tlc(kw.pop('spec'), kw.pop('cfg'), **kw), dict(v, tag=k)) for k, v in jobs.items()}
        for k, f in futs.items():
            res[k] = f.result()
    for k in ('mc', 'gen', 'sim'):
        r = res[k]
        if r.timed_out:
            raise vlib.Inconclusive(f'TLC timed out on {jobs[k]["cfg"]}')
        if not r.ok:
            tail = '\n'.join(r.stdout.splitlines()[-40:])
            raise vlib.Inconclusive(f'TLC did not pass on {jobs[k]["cfg"]}: violated={r.violated}\n{tail}')
    ctx.check_coverage(res['mc'], ACTIONS)

    # ------------------------------------------------------------ leads found on the model
    cases_rc = []
    ls = res['lead_spin']
    if ls.violated != 'NoSpin' or not ls.trace:
        raise vlib.Inconclusive('the pre-repair model (NegReset) no longer violates NoSpin: lead run failed\n' + ls.stdout[-1500:])
    last = tlaval.plain(ls.trace[-1][1])
    lead_steps = [s for s in last['hist'] if s['a'] in ('schedule', 'release', 'advance')]
    cases_rc.append({'mode': 'realclock', 'prof': last['prof'], 'steps': lead_steps, 'windowMs': 200, 'bound': 50})
    lr = res['lead_rel']
    ctx.extra_cov['model_lead_NoStartAfterRelease'] = (
        'violated on the model (run handed to a worker, Release returns, Execute is called): forced on the real code by replay'
        if lr.violated == 'NoStartAfterRelease' else f'not violated on the model ({lr.violated})')
    ctx.extra_cov['model_lead_NoSpin_prerepair'] = f'violated after {len(ls.trace)} states; API steps replayed with the real clock'

    # ------------------------------------------------------------ replay: every history up to the bound + deep behaviours
    blocks = _closed_histories(res['gen'].dump_path)
    total_hist = len(blocks)
    budget = 1500 if quick else 8000
    chosen_blocks = vlib.sample_list(ctx.rng, blocks, budget)
    cases = [_case_of_block(b) for b in chosen_blocks]
    ctx.exhaustive = (len(cases) == total_hist)
    nsim = 0
    for beh in ctx.sim_behaviours(res['sim']):
        if not beh:
            continue
        st = beh[-1]
        if len(st['hist']) >= 4:
            cases.append({'mode': 'replay', 'prof': st['prof'], 'steps': st['hist']})
            nsim += 1
    nconc = 1 if quick else 2
    allcases = []
    for k in range(nconc):
        for i, c in enumerate(cases):
            allcases.append(dict(c, conc=k * 100003 + i))
    results, lines = ctx.replay(binary, allcases, procs=vlib.NCPU, par=4, timeout=ts * (240 if quick else 1500), case_timeout='90s')
    ctx.absorb(results, lines)
    ctx.extra_cov['histories_total_to_bound'] = total_hist
    ctx.extra_cov['histories_replayed'] = len(chosen_blocks)
    ctx.extra_cov['simulated_behaviours_replayed'] = nsim
    ctx.extra_cov['concretisations_per_history'] = nconc
    ctx.extra_cov['max_loop_iterations_in_a_step_at_rest'] = max([int((r.get('extra') or {}).get('maxLoopsPerStep', 0)) for r in results] or [0])

    # ------------------------------------------------------------ real clock: no spin while nothing is due
    rres, rlines = ctx.replay(binary, cases_rc, procs=1, par=1, timeout=ts * 120)
    ctx.absorb(rres, rlines, sample=0)
    ctx.extra_cov['realclock_loop_iterations_in_200ms'] = [(r.get('extra') or {}).get('loopIterationsInWindow') for r in rres]

    # ------------------------------------------------------------ trace validation
    ntr = 2 if quick else 12
    per = 6 if quick else 10
    rec_cases = []
    for i in range(ntr):
        ntasks = 2 if (quick or i % 3) else 3
        rec_cases.append({'mode': 'record', 'out': ctx.tmp(f'traces/t{i}.ndjson'), 'ntraces': per, 'phases': 6 if quick else 8,
                          'ntasks': ntasks, 'conc': i})
    cres, clines = ctx.replay(binary, rec_cases, procs=min(4, ntr), par=1, timeout=ts * (300 if quick else 900))
    for r in cres:
        if not r.get('ok'):
            if r.get('kind') == 'infra':
                ctx.infra.append('record: ' + r.get('msg', '')[:300])
            else:
                ctx.divergences.append({'case': rec_cases[r['id']], 'result': r})

    if os.environ.get('VERIF_C24_SELFTEST') == 'corrupt_trace' and cres[0].get('ok'):
        # self-test of the binding: change one logged scheduledFor in trace file 0; the validation must reject the file (and,
        # the re-recordings being genuine, end as a counted recorder drift, not as a violation)
        tl0 = [json.loads(x) for x in open(rec_cases[0]['out'])]
        for e in tl0:
            if e.get('ev') == 'start':
                e['sf'] += 1
                break
        with open(rec_cases[0]['out'], 'w') as f:
            f.writelines(json.dumps(e) + '\n' for e in tl0)

    def val(i):
        c = rec_cases[i]
        cfg = 'TraceScheduler.cfg' if c['ntasks'] == 2 else 'TraceScheduler.T3.cfg'
        return i, _validate(ctx, cfg, c['out'], f'trace{i}', ts * (420 if quick else 900))
    accepted = 0
    trace_lines = 0
    with cf.ThreadPoolExecutor(max_workers=min(4, vlib.NCPU)) as ex:
        outs = list(ex.map(val, [i for i in range(ntr) if cres[i].get('ok')]))
    for i, (r, hw) in outs:
        c = rec_cases[i]
        tl = [json.loads(x) for x in open(c['out'])]
        if r.timed_out:
            ctx.infra.append(f'trace validation timed out (trace file {i})')
            continue
        if r.ok:
            accepted += int((cres[i].get('extra') or {}).get('traces', 0))
            trace_lines += len(tl)
            continue
        if r.violated == 'TraceNoStartAfterRelease':
            # the trace contains an Execute call after a Release of that task returned (no overlapping Schedule). Is the whole
            # trace still a behaviour of the implementation model, i.e. can the run have been handed to its worker before the
            # Release took the lock? Then it is the known window; otherwise (hand-off after Release) the trace is rejected.
            _, at = _late_start_pattern(tl)
            acfg = 'TraceScheduler.Accept.cfg' if c['ntasks'] == 2 else 'TraceScheduler.AcceptT3.cfg'
            r2, hw2 = _validate(ctx, acfg, c['out'], f'trace{i}b', ts * (420 if quick else 900))
            if r2.timed_out:
                ctx.infra.append(f'trace validation timed out (trace file {i})')
                continue
            if r2.ok:
                accepted += int((cres[i].get('extra') or {}).get('traces', 0))
                trace_lines += len(tl)
                ctx.divergences.append({'case': {'mode': 'trace', 'file': i, 'lines': tl[max(0, (at or 0) - 12):(at or 0) + 1]},
                                        'result': {'msg': f'NoStartAfterRelease: recorded trace (near line {at}): Execute entered after Release of the task had returned; '
                                                          'the trace is a behaviour of the specification only with the run handed to its worker before the Release',
                                                   'patterns': ['run_handed_to_worker_before_release_returned'], 'step': at}})
                continue
            r, hw = r2, hw2
        if hw is None:
            ctx.infra.append(f'trace validation failed to run (trace file {i}): ' + r.stdout[-600:])
            continue
        # rejected. The recorder advances the clock when the scheduler has been silent for 40 ms; if that was not a quiescent
        # point the recorded order of harness events can differ from the order of the scheduler's own steps (clock.Mock.Add is
        # not atomic): a recorder artefact. The same workload (same seed) is recorded again with growing quiescence waits; an
        # accepted re-recording turns the first rejection into a counted recorder-timing drift, and only a rejection that
        # persists across all re-recordings is reported.
        acfg = 'TraceScheduler.Accept.cfg' if c['ntasks'] == 2 else 'TraceScheduler.AcceptT3.cfg'
        first = f'line {hw[0] + 1} of {hw[1]}: {json.dumps(tl[hw[0]]) if hw[0] < len(tl) else "?"}'
        persisted, infra_msg, last_hw, last_tl = True, None, hw, tl
        for k, q in enumerate((600, 2000)):
            c2 = dict(c, out=ctx.tmp(f'traces/t{i}_again{k}.ndjson'), quietMs=q)
            rr, _ = ctx.replay(binary, [c2], procs=1, par=1, timeout=ts * 1200)
            if not rr[0].get('ok'):
                infra_msg = f're-recording of trace file {i} failed: ' + str(rr[0].get('msg', ''))[:300]
                break
            again, hwa = _validate(ctx, acfg, c2['out'], f'trace{i}r{k}', ts * (420 if quick else 900))
            if again.timed_out or (not again.ok and hwa is None):
                infra_msg = f'validation of the re-recorded trace file {i} did not finish'
                break
            if again.ok:
                persisted = False
                accepted += int((rr[0].get('extra') or {}).get('traces', 0))
                trace_lines += sum(1 for _ in open(c2['out']))
                ctx.drift['recorder_timing_rejection_not_repeated'] = ctx.drift.get('recorder_timing_rejection_not_repeated', 0) + 1
                ctx.extra_cov.setdefault('recorder_timing_drift', []).append(
                    {'trace_file': i, 'first_rejection': first, 'accepted_with_quiescence_ms': q, 'context': tl[max(0, hw[0] - 8):hw[0] + 1]})
                break
            last_hw, last_tl = hwa, [json.loads(x) for x in open(c2['out'])]
        if infra_msg:
            ctx.infra.append(infra_msg)
            continue
        if not persisted:
            continue
        ctx.divergences.append({'case': {'mode': 'trace', 'file': i, 'lines': tl[max(0, hw[0] - 12):hw[0] + 1],
                                         'rerecorded_lines': last_tl[max(0, last_hw[0] - 12):last_hw[0] + 1]},
                                'result': {'msg': f'recorded trace is not a behaviour of Scheduler.tla: no action explains {first} '
                                                  '(rejected again when recorded with 600 ms and 2 s quiescence waits)',
                                           'patterns': [], 'step': hw[0]}})
    ctx.traces_validated += accepted
    ctx.extra_cov['recorded_traces_accepted'] = accepted
    ctx.extra_cov['recorded_traces_discarded_mock_clock_wedged'] = sum(int((r.get('extra') or {}).get('discardedMockWedged', 0)) for r in cres)
    ctx.extra_cov['recorded_trace_lines'] = trace_lines

    ctx.rule = ('replay: every history of MaxOps harness-controlled actions (Schedule(t, lastScheduled = now - back), Release, clock tick, '
                'start of a handed-over run, return of an executor) over 2 tasks x 5 (every, offset, worker) profiles, taken at quiescent '
                'points (sampled by seed above the budget), plus random behaviours of up to 24 actions over all 72 profiles; compared before '
                'each step: set of runs handed to workers, set of runs executing (id, scheduledFor, runAt), When(), loop iterations; '
                'non-trivial = at least one Execute call and (a Release, a re-Schedule, a loop retrying a due run whose worker is busy, or '
                '>= 2 runs), distinct by action sequence + profile. Trace validation: seeded concurrent workloads, accepted line by line.')
    ctx.assumptions += [
        'time is modelled in integer ticks; the harness maps one tick to 1 s / 1 min / 1 h and a schedule to `@every` or a six-field cron expression (by seed)',
        'the mock clock is advanced one tick at a time and only at quiescent points, so the clock does not change while a loop pass hands out runs '
        '(clock.Mock.Add is not atomic; with the real clock the corresponding drift is nanoseconds)',
        'clock.Mock delivers a tick with a blocking send: histories in which the timer fires again while a tick is still buffered are not replayed, '
        'and recorded traces in which this wedges the mock clock are discarded (counted) (MC_* explores them with the real clock\'s drop semantics)',
        'clock jumps over several due times inside one Add are not replayed; catch-up is exercised through lastScheduled in the past and slow executors',
        'executor errors/panics and cron expressions that stop producing times are outside the model',
        'NoSpin on the real clock: one 200 ms window, bound 50 loop iterations (a spin produces > 10^5), retried up to 3 times',
    ]


META = {
    'level': 'model_checking',
    'text': 'TLC checks the scheduler design (queue, timer, main loop, workers) against the C24 contract on all interleavings for '
            '2 tasks / 2 workers; every bounded history and random deep behaviours are replayed step by step on the real '
            'TreeScheduler (mock clock, parked workers, blocking executor, loop counter hook H2), and traces of concurrent runs '
            'are validated against the same specification.',
    'design_ref': '5.15',
    'note': 'Trusted: TLC, the driver\'s state comparison (sets of runs, When(), loop counter), clock.Mock. The loop counter needs the '
            'verif build tag (hook H2).',
    'technique': 'TLA+ spec (Scheduler.tla, TraceScheduler.tla) + TLC exhaustive + replay of TLC histories with forced schedules + trace validation',
    'quick_s': 150, 'thorough_s': 1500,
}
