"""XSTORE — shard lifecycle of tsdb.Store (extra specification module, not tied to one listed property).
Spec: StoreLifecycle.tla.  TLC checks the lifecycle contract on the model (a shard id lives in at most one (db, rp); DeleteShard
leaves every other shard untouched and removes exactly the series ids no remaining shard of the database holds; DeleteDatabase /
DeleteRetentionPolicy leave nothing of their target and touch nothing else; Close/Open preserve everything; refused calls change
nothing).  Binding: every TLC history up to the bound (one per renaming class, sampled by seed above the budget) plus longer
simulated histories are replayed on a real tsdb.Store (tsm1 + tsi1) in a scratch directory; after every step the driver compares
registered shards, readable points, series per shard index / per database / in the series file (with id stability), and the
directory layout under data/ and wal/."""
import json
import vlib

MC_ACTIONS = ['CreateShard', 'Write', 'DeleteShard', 'DeleteRP', 'DeleteDatabase', 'Close', 'Open']


def _case(ctx, consts, hist, conc):
    return {'dbs': consts['DBs'], 'rps': consts['RPs'], 'ids': consts['IDs'], 'series': consts['Series'],
            'times': consts['Times'], 'steps': hist, 'conc': conc}


def _consts(cfgname, ctx):
    """constants of a cfg as lists of model-value names (the driver needs the universes to probe absent ids / databases)"""
    import os
    import re
    txt = open(os.path.join(ctx.spec_dir, cfgname)).read()
    out = {}
    for k in ['DBs', 'RPs', 'IDs', 'Series', 'Times']:
        m = re.search(r'^\s*' + k + r'\s*=\s*\{([^}]*)\}', txt, re.M)
        out[k] = [x.strip() for x in m.group(1).split(',') if x.strip()]
    m = re.search(r'MaxOps\s*=\s*(\d+)', txt)
    out['MaxOps'] = int(m.group(1))
    return out


def _interesting(h):
    """short histories worth the replay budget first: an effective delete, a reopen, a refused write"""
    acts = [(s['a'], s['err']) for s in h]
    score = 0
    if any(a in ('delshard', 'delrp', 'deldb') and e == 'ok' for a, e in acts):
        score += 2
    if ('open', 'ok') in acts:
        score += 1
    if any(e == 'notfound' for _, e in acts):
        score += 1
    return score


# scenario classes of a history, computed from the spec's own observations (exp of the previous step = state before the call);
# used to spend the replay budget on every class and as vacuity guard
REQUIRED = ['delshard_shared', 'delshard_excl_with_rest', 'delrp_other_rp_data', 'deldb_other_db_data', 'reopen_2rp_data',
            'reopen_2db_data', 'write_notfound', 'write_closed', 'rewrite_fresh_id', 'create_existing_id_elsewhere']


def features(h):
    """see REQUIRED; *_data = the removed thing held points"""
    f=set()
    prev={'shards':[], 'pts':[], 'sfile':[], 'disk':[]}
    gone_ids=set()
    removed_series=set()   # (db, s) whose id was removed from the file
    for st in h:
        e=st['exp']; a=st['a']; err=st['err']
        pshards={tuple(x) for x in prev['disk']}
        ser={}
        for p in prev['pts']:
            ser.setdefault(p[0],set()).add(p[1])
        byid={x[2]:x for x in pshards}
        if a=='delshard' and err=='ok':
            x=byid[st['id']]; mine=ser.get(st['id'],set())
            others=[y for y in pshards if y[0]==x[0] and y[2]!=st['id']]
            oser=set().union(*[ser.get(y[2],set()) for y in others]) if others else set()
            if mine & oser: f.add('delshard_shared')
            if (mine - oser) and oser: f.add('delshard_excl_with_rest')
            if mine: f.add('delshard_data')
        if a=='delrp' and err=='ok':
            gone=[y for y in pshards if y[0]==st['db'] and y[1]==st['rp']]
            rest=[y for y in pshards if y[0]==st['db'] and y[1]!=st['rp']]
            if any(ser.get(y[2]) for y in gone) and any(ser.get(y[2]) for y in rest): f.add('delrp_other_rp_data')
            if any(ser.get(y[2]) for y in gone): f.add('delrp_data')
        if a=='deldb' and err=='ok':
            gone=[y for y in pshards if y[0]==st['db']]
            rest=[y for y in pshards if y[0]!=st['db']]
            if any(ser.get(y[2]) for y in gone) and any(ser.get(y[2]) for y in rest): f.add('deldb_other_db_data')
            if any(ser.get(y[2]) for y in gone): f.add('deldb_data')
        if a=='open' and err=='ok':
            rps={(y[0],y[1]) for y in pshards if ser.get(y[2])}
            if len(rps)>=2: f.add('reopen_2rp_data')
            if len({r[0] for r in rps})>=2: f.add('reopen_2db_data')
            if rps: f.add('reopen_data')
        if a=='write' and err=='notfound': f.add('write_notfound')
        if a=='write' and err=='closed': f.add('write_closed')
        if a=='create' and err=='exists':
            x=byid.get(st['id'])
            if x and (x[0]!=st['db'] or x[1]!=st['rp']): f.add('create_existing_id_elsewhere')
        if st.get('stale'): f.add('stale_'+a)
        psf={(x[0],x[1]):x[2] for x in prev['sfile']}
        nsf={(x[0],x[1]):x[2] for x in e['sfile']}
        for k in psf:
            if k not in nsf: removed_series.add(k)
        if a=='write' and err=='ok':
            for k in nsf:
                if k not in psf and k in removed_series: f.add('rewrite_fresh_id')
        prev=e
    return f


def _sim_last_states(ctx, sim):
    """last state of every behaviour file of a -simulate run (it carries the whole history)"""
    import glob
    import os
    import re
    import tlaval
    for fn in sorted(glob.glob(os.path.join(sim.sim_dir, 'b_*'))):
        text = open(fn).read()
        i = text.rfind('\nSTATE_')
        m = re.match(r'STATE_(\d+) ==\s*\n?(.*)', text[i + 1:], re.S)
        if not m:
            raise vlib.Inconclusive(f'cannot parse simulate file {fn}')
        yield tlaval.plain(tlaval.parse_state_body(m.group(2)))


def run(ctx):
    tier = ctx.tier
    quick = tier == 'quick'
    workers = min(4, vlib.NCPU)
    # 1. the design against the contract (VIEW hides hist, symmetric names)
    r = ctx.tlc_must_pass('StoreLifecycle', f'StoreLifecycle.MC_{tier}.cfg', timeout=3000, coverage=True)
    ctx.check_coverage(r, MC_ACTIONS)
    # 2. model-level lead for deviation Q2: the ideal "DeleteDatabase leaves no directory" fails on the model that follows the
    #    code; the counterexample is replayed on the real store below (a model-only violation is just a lead)
    lead = ctx.tlc('StoreLifecycle', 'StoreLifecycle.Lead_Q2.cfg', timeout=300, count=False, workers=1)
    if lead.timed_out or lead.violated != 'StrongDeleteDatabase' or not lead.trace:
        raise vlib.Inconclusive('Lead_Q2: expected the model (as it follows the code) to violate StrongDeleteDatabase; got ok=%s '
                                'violated=%s\n%s' % (lead.ok, lead.violated, lead.stdout[-1200:]))
    import tlaval
    lead_hist = tlaval.plain(lead.trace[-1][1])['hist']
    lc = _consts('StoreLifecycle.Lead_Q2.cfg', ctx)
    lead_cases = [_case(ctx, lc, lead_hist, 1000 + j) for j in range(3 if quick else 12)]
    # 3. histories: every history of length MaxOps (one per renaming class) ...
    gcfg = f'StoreLifecycle.Gen_{tier}.cfg'
    gc = _consts(gcfg, ctx)
    g = ctx.tlc_must_pass('StoreLifecycle', gcfg, timeout=3000, dump=True, coverage=True)
    ctx.check_coverage(g, MC_ACTIONS)
    hists = []
    for st in ctx.dump_states(g):
        if len(st['hist']) == gc['MaxOps']:
            hists.append(st['hist'])
    total_exh = len(hists)
    if total_exh == 0:
        raise vlib.Inconclusive('no maximal histories in the Gen dump')
    budget = 260 if quick else 3000
    # half of the budget goes to the histories with an effective delete and a reopen / refused write, the rest is a plain sample
    top = [i for i in range(total_exh) if _interesting(hists[i]) >= 3]
    chosen_idx = set(vlib.sample_list(ctx.rng, top, budget // 2))
    rest = [i for i in range(total_exh) if i not in chosen_idx]
    chosen_idx |= set(vlib.sample_list(ctx.rng, rest, max(0, budget - len(chosen_idx))))
    chosen = [hists[i] for i in sorted(chosen_idx)]
    ctx.exhaustive = len(chosen) == total_exh
    cases = [_case(ctx, gc, h, ctx.rng.randrange(1000)) for h in chosen]
    # ... + longer simulated ones (SimSpec: kind of call drawn first). A pool is generated; the replay budget is spent so that every
    # scenario class of REQUIRED is present `quota` times, the rest is filled with the other behaviours in pool order.
    sc = _consts('StoreLifecycle.Sim.cfg', ctx)
    pool_n = 600 if quick else 6000
    sim_budget = 150 if quick else 1200
    quota = 10 if quick else 100
    sim = ctx.tlc('StoreLifecycle', 'StoreLifecycle.Sim.cfg', timeout=1500, simulate={'num': max(1, pool_n // workers)},
                  depth=2 * sc['MaxOps'] + 1, count=False, workers=workers)
    if sim.timed_out or not sim.ok:
        raise vlib.Inconclusive('simulation run failed: ' + sim.stdout[-1500:])
    seen = set()
    pool = []
    for st in _sim_last_states(ctx, sim):
        h = st['hist']
        key = json.dumps(h, sort_keys=True)
        if h and key not in seen:
            seen.add(key)
            pool.append((h, features(h)))
    picked = []
    picked_set = set()
    have = {f: 0 for f in REQUIRED}
    for f in REQUIRED:
        for j, (h, fs) in enumerate(pool):
            if have[f] >= quota:
                break
            if f in fs and j not in picked_set:
                picked_set.add(j)
                picked.append(j)
                for x in fs:
                    if x in have:
                        have[x] += 1
    for j in range(len(pool)):
        if len(picked) >= sim_budget:
            break
        if j not in picked_set:
            picked_set.add(j)
            picked.append(j)
    missing = [f for f in REQUIRED if have[f] < 2]
    if missing:
        raise vlib.Inconclusive(f'vacuity guard: scenario classes (almost) absent from the simulated pool of {len(pool)}: {missing}')
    nconc = 1 if quick else 2
    for j in picked:
        for _ in range(nconc):
            cases.append(_case(ctx, sc, pool[j][0], ctx.rng.randrange(1000)))
    cases += lead_cases
    binary = ctx.go_build('storelife')
    res, lines = ctx.replay(binary, cases, timeout=2400, case_timeout='180s', procs=workers)
    ctx.absorb(res, lines)
    lead_res = res[len(cases) - len(lead_cases):]
    reproduced = sum(1 for x in lead_res if 'delete_of_database_without_loaded_shard_is_noop' in (x.get('patterns') or []))
    ctx.extra_cov['model_level_lead_Q2'] = {'violated': lead.violated, 'trace_len': len(lead.trace),
                                            'replayed_concretisations': len(lead_cases), 'reproduced_on_real_store': reproduced}
    featc = {}
    for j in picked:
        for x in pool[j][1]:
            featc[x] = featc.get(x, 0) + 1
    ctx.extra_cov.update({
        'histories_exhaustive_total': total_exh, 'histories_exhaustive_replayed': len(chosen),
        'histories_simulated_pool': len(pool), 'histories_simulated_replayed': len(picked),
        'scenario_classes_in_replayed_simulated_histories': dict(sorted(featc.items())),
        'replay_cases': len(cases),
        'steps_compared': sum(int(x.get('evals', 0) or 0) for x in res),
    })
    ctx.rule = ('every TLC history of length MaxOps over create/write/delshard/delrp/deldb/close/open on 2 databases x 2 retention '
                'policies x 2 shard ids x 2 series with at most one call without effect (one history per renaming class of names, '
                'ids, series; sampled by seed above the budget, half of the budget reserved for histories with an effective delete '
                'plus a reopen or refused write), plus -simulate histories of 12 calls over 3 shard ids x 4 series x 2 timestamps '
                'chosen from a pool so that every scenario class (delete of a shard sharing series with a remaining one / holding '
                'exclusive series, delete of one of two populated retention policies / databases, reopen with two populated '
                'retention policies / databases, refused writes, re-written series, create of an existing id elsewhere) is present; '
                'plus the Lead_Q2 counterexample; each replayed on a real tsdb.Store under a seeded concretisation (directory-name '
                'styles, shard-id styles, escape-heavy series keys, timestamps near 0/Min/Max, cache vs snapshot, same or new Store '
                'object at reopen); all observables compared after every step. non-trivial = history with an effective '
                'DeleteShard/DeleteRetentionPolicy/DeleteDatabase or Open while points exist, or a write refused with '
                'shard-not-found; distinct by the sequence of calls and outcomes')
    ctx.assumptions += [
        'calls are sequential (one Store call at a time); concurrent deletes and writes are BucketDelete.tla',
        'clean Close before Open (crash recovery of shards is TSMEngineCrash.tla / SeriesFile.tla)',
        'one point per write, one field; no series-level deletes inside this module (DeleteSeries*: BucketDelete.tla, TSIMeta.tla)',
        'deviation Q1 is modelled, not judged: DeleteRetentionPolicy leaves the series ids of the removed shards in the series file',
    ]


META = {
    'extra': True,
    'level': 'model_checking',
    'text': 'Shard lifecycle of tsdb.Store: TLC checks on StoreLifecycle.tla that a shard id lives in at most one (db, rp), that '
            'DeleteShard leaves all other shards untouched and removes exactly the series ids held by no remaining shard of the '
            'database, that DeleteDatabase/DeleteRetentionPolicy leave nothing of their target and touch nothing else, that '
            'Close/Open preserve everything and that refused calls (shard not found, store closed) store nothing; every bounded '
            'history and longer simulated ones are replayed on a real tsdb.Store with all listings, reads, series-file contents '
            '(incl. id stability) and the directory layout compared after every step.',
    'design_ref': 'extra (StoreLifecycle)',
    'note': 'Trusted: TLC, the driver\'s observation code (cursor reads, IndexSet listings, series file iteration, directory walk), '
            'the seeded concretisation table. Sequential calls only.',
    'technique': 'TLA+ spec (StoreLifecycle.tla) + TLC exhaustive/simulation + replay of TLC histories on a real tsdb.Store',
    'quick_s': 100, 'thorough_s': 1100,
}
