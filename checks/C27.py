"""C27 — replication forwards every queued batch, in order, until the remote accepts it; retry delays follow the backoff
and Retry-After rules.

Spec: Replication.tla (durable-queue contract of C26 + scanner + SendWrite steps + the run() select loop + retry timer +
max-age purge) on top of ReplWriterRules.tla (what writer.Write returns for every remote answer); ReplWriterTable.tla
enumerates the delay rule as an input table.

Binding: replay on the REAL code (harness/cmd/repl), against an httptest remote that plays the response script TLC chose:
  writer  every (answer, attempts 0..13, drop) row on remotewrite.NewWriter(...).Write(data, attempts)
  steps   every maximal TLC history on the real replicationQueue (built by newReplicationQueue, export wrapper) over a real
          durablequeue with 2-block segments: the driver calls SendWrite itself, so every returned (wait, shouldRetry) is
          observed without sleeping; local writes are injected while a request is in flight (from the remote's handler);
          clock ticks age the segment files (Chtimes), the purge step is the purge case of run()
  e2e     a selection of the same histories through the real run() loop (first batch already in the queue directory,
          StartReplicationQueues / EnqueueData from the remote's handler / CloseAll): requests, their order, and that a
          retry never starts before the armed wait has elapsed unless a local-write notification is pending (the spec's
          trigger of that call is then "recv"; timer-triggered calls are held to the wait exactly)
  periodic  histories in which the 10 s in-scan ticker fires (the remote holds one request for 10.5 s); after the in-scan
            Advance the repaired code returns (0,true) and continues with a fresh scanner (finding F38, fixed in /repo)
Compared exactly: the batches each call posts (bytes), what remains in the queue (drained from a copy of the directory),
wait/shouldRetry.  rq.failedWrites is DRIFT.  The driver also evaluates the removal/order contract on its own observations.
"""
import json
import os
import threading
import time

import tlaval
import vlib

PATTERN_PERIODIC = 'periodic_advance_at_segment_end'


def terminal_states(path, nbatches):
    """States of a -dump in which nothing is left to do (all batches enqueued, loop idle, timer off, no signal):
    their hist is a maximal history.  A text prefilter avoids parsing every prefix state."""
    needles = ['/\\ pc = "idle"', '/\\ timer = -1', '/\\ sig = 0', '/\\ nextB = %d\n' % (nbatches + 1)]
    total = 0
    out = []
    buf = []

    def flush():
        nonlocal total
        if not buf:
            return
        total += 1
        body = ''.join(buf)
        if all(n in body for n in needles):
            out.append(tlaval.plain(tlaval.parse_state_body(body)))

    with open(path) as f:
        for line in f:
            if line.startswith('State ') and line.rstrip().endswith(':'):
                flush()
                buf = []
            else:
                buf.append(line)
    flush()
    return total, out


def to_case(st, mode='steps', conc=0, segcap=2):
    return {'mode': mode, 'drop': st['cfg']['drop'], 'maxAge': st['cfg']['maxAge'], 'att0': st['cfg']['att0'],
            'pre': st['cfg']['pre'], 'segCap': segcap, 'conc': conc, 'steps': st['hist']}


def e2e_ok(case, max_wait_ms, need_timer=True):
    """History that the real run() loop follows deterministically without hooks.  run() makes a start-up pass over the
    queue before it waits, and the driver can see neither when that pass ends nor when a later SendWrite call returns, so
    a local write made by the driver itself would race with the loop (it may land before or after the pass: two different
    spec histories).  Deterministic shape: the first batch is already in the queue directory when the manager starts
    (StartReplicationQueues: the start-up pass posts it, no notification pending), every other local write arrives while
    a request is in flight (the remote's handler makes it: the loop is provably inside a call then, and the buffered
    notification is consumed after that call - including after the start-up pass); a timer-triggered call happens only
    when no notification is pending; no clock steps; no timeouts (a timed-out request may never reach the remote); total
    armed wait small."""
    if case.get('pre', 0) < 1:
        return False
    steps = case['steps']
    total = 0
    timer_calls = 0
    for i, s in enumerate(steps):
        if s['a'] in ('tick', 'purge'):
            return False
        if s['a'] == 'enq':
            return False
        if s['a'] == 'send':
            if any(p['r'] in ('timeout', 'reset') or p['tick'] for p in s['posts']):
                return False
            if s['trig'] == 'timer':
                if i == 0 or steps[i - 1]['exp']['sig'] != 0:
                    return False
                total += steps[i - 1]['exp']['timer']
                timer_calls += 1
            if s['trig'] == 'recv' and (i == 0 or steps[i - 1]['exp']['sig'] != 1):
                return False
            if s['trig'] == 'startup' and i != 0:
                return False
    return (timer_calls >= 1 or not need_timer) and total <= max_wait_ms


def nticks(case):
    return sum(1 for s in case['steps'] if s['a'] == 'send' for p in s['posts'] if p['tick'])


def run(ctx):
    tier = ctx.tier
    quick = tier == 'quick'
    jobs = {}
    errs = []
    # TLC jobs: at most NCPU workers in total (a few configs side by side on a big machine, one after the other on 4 cores)
    w = max(1, min(4, vlib.NCPU))
    slots = threading.Semaphore(max(1, vlib.NCPU // 4))

    def tlc_job(name, spec, cfg, **kw):
        def f():
            with slots:
                try:
                    jobs[name] = ctx.tlc(spec, cfg, tag=name, workers=w, **kw)
                except Exception as e:  # noqa
                    errs.append(f'{name}: {e}')
        t = threading.Thread(target=f)
        t.start()
        return t

    binary = ctx.go_build('repl')
    # ---- 1. TLC: checking configs (VIEW hides the history variables) and generation configs
    tmo = 1800 if quick else 3000
    threads = [
        tlc_job('mc', 'Replication', f'Replication.MC_{tier}.cfg', timeout=tmo, coverage=True),
        tlc_job('wtab', 'ReplWriterTable', 'ReplWriterTable.cfg', timeout=tmo, dump=True),
        tlc_job('gen', 'Replication', f'Replication.Gen_{tier}.cfg', timeout=tmo, dump=True),
        tlc_job('age', 'Replication', f'Replication.Gen_age_{tier}.cfg', timeout=tmo, dump=True),
        tlc_job('per', 'Replication', 'Replication.Gen_periodic.cfg', timeout=tmo, dump=True),
        tlc_job('mcper', 'Replication', 'Replication.MC_periodic.cfg', timeout=tmo),      # repaired periodic advance
        tlc_job('lead', 'Replication', 'Replication.Lead_periodic.cfg', timeout=tmo),     # as found (F38): must violate
    ]
    if not quick:
        threads.append(tlc_job('sim', 'Replication', 'Replication.Sim.cfg', timeout=tmo, simulate={'num': 500}, depth=120))
    for t in threads:
        t.join()
    if errs:
        raise vlib.Inconclusive('; '.join(errs))
    for name in ('mc', 'mcper', 'wtab', 'gen', 'age', 'per') + (() if quick else ('sim',)):
        r = jobs[name]
        if r.timed_out:
            raise vlib.Inconclusive(f'TLC timed out ({name})')
        if not r.ok:
            raise vlib.Inconclusive(f'TLC did not pass ({name}): violated={r.violated}\n' + '\n'.join(r.stdout.splitlines()[-30:]))
    ctx.check_coverage(jobs['mc'], ['Enqueue', 'Recv', 'TimerFire', 'StartScan', 'ScanNext', 'Post', 'HandleStatus',
                                    'FinalAdvance', 'Tick', 'Purge'])

    # ---- 2. writer table: the state is the case
    wcases = []
    for st in ctx.dump_states(jobs['wtab']):
        for conc in range(1 if quick else 4):
            wcases.append({'mode': 'writer', 'r': st['wcase']['r'], 'att': st['wcase']['att'], 'drop': st['wcase']['drop'],
                           'ok': st['wexp']['ok'], 'wait': st['wexp']['wait'], 'conc': conc})
    if not wcases:
        raise vlib.Inconclusive('no writer-table cases')

    # ---- 3. histories
    nb_gen = 2 if quick else 3
    tot_gen, term_gen = terminal_states(jobs['gen'].dump_path, nb_gen)
    tot_age, term_age = terminal_states(jobs['age'].dump_path, 3)
    tot_per, term_per = terminal_states(jobs['per'].dump_path, 3)
    if not term_gen or not term_age or not term_per:
        raise vlib.Inconclusive('a generation config produced no maximal history')
    gen_cases = [to_case(st, conc=i % 8) for i, st in enumerate(term_gen)]
    age_cases = [to_case(st, conc=i % 8) for i, st in enumerate(term_age)]
    per_all = [to_case(st) for st in term_per]
    sim_cases = []
    if not quick:
        for beh in ctx.sim_behaviours(jobs['sim']):
            last = beh[-1]
            if last['pc'] == 'idle' and last['hist']:
                sim_cases.append(to_case(last, conc=len(sim_cases) % 8))
    budget_gen = 6000 if quick else 20000
    budget_age = 400 if quick else 6000
    chosen_gen = vlib.sample_list(ctx.rng, gen_cases, budget_gen)
    chosen_age = vlib.sample_list(ctx.rng, age_cases, budget_age)
    ctx.exhaustive = (len(chosen_gen) == len(gen_cases))
    # periodic: the remote holds each flagged request for 10.5 s; histories with exactly one (thorough: up to two)
    per_cases = [c for c in per_all if 1 <= nticks(c) <= (1 if quick else 2)]
    per_cases = vlib.sample_list(ctx.rng, per_cases, 24 if quick else 200)
    # e2e through run(): selection that needs no hooks, short waits
    e2e_pool = [dict(c, mode='e2e') for c in gen_cases if c['att0'] == 0 and e2e_ok(c, 2600 if quick else 4000)]
    e2e_cases = vlib.sample_list(ctx.rng, e2e_pool, 24 if quick else 300)
    # the same loop over two production-size segments: 6 MB batches, 3 batches, remote accepts everything
    big_pool = [dict(c, mode='e2e', bodyLen=6 << 20, slackMs=240000) for c in per_all
                if nticks(c) == 0 and e2e_ok(c, 0, need_timer=False)]
    big_cases = vlib.sample_list(ctx.rng, big_pool, 2 if quick else 12)
    if not big_cases:
        raise vlib.Inconclusive('no two-segment e2e history selected')
    if not e2e_cases or not per_cases:
        raise vlib.Inconclusive('no e2e / periodic history selected')

    # ---- 4. replay on the real code: the sleeping families (periodic, e2e) run beside the fast ones
    slow = {}

    def slow_job():
        try:
            slow['per'] = ctx.replay(binary, per_cases, procs=1, par=max(1, len(per_cases)), timeout=600, case_timeout='100s')
            n_small = len(e2e_cases)
            res_e, lines_e = ctx.replay(binary, e2e_cases, procs=1, par=max(1, len(e2e_cases)), timeout=900, case_timeout='200s')
            time.sleep(0.01)
            res_g, lines_g = ctx.replay(binary, big_cases, procs=1, par=min(4, len(big_cases)), timeout=1800, case_timeout='600s')
            for r in res_g:
                r['id'] += n_small
            res_e, lines_e = res_e + res_g, lines_e + lines_g
            e2e_all = e2e_cases + big_cases
            # timing-dependent family: a failure must repeat (twice more) to count; an unrepeatable one is noted only
            for attempt in range(2):
                bad = [i for i, r in enumerate(res_e) if not r.get('ok') and r.get('kind') != 'infra']
                if not bad:
                    break
                time.sleep(0.01)
                res_b, _ = ctx.replay(binary, [e2e_all[i] for i in bad], procs=1, par=min(4, len(bad)), timeout=1800, case_timeout='600s')
                for i, r in zip(bad, res_b):
                    if r.get('ok'):
                        r['id'] = i
                        r['drift'] = (r.get('drift') or []) + ['e2e_passed_on_retry']
                        res_e[i] = r
            slow['e2e'] = (res_e, lines_e)
        except Exception as e:  # noqa
            errs.append(f'slow replay: {e}')
    ts = threading.Thread(target=slow_job)
    ts.start()
    time.sleep(0.05)
    fast = wcases + chosen_gen + chosen_age + sim_cases
    res, lines = ctx.replay(binary, fast, par=2, timeout=900 if quick else 3000)
    ts.join()
    if errs:
        raise vlib.Inconclusive('; '.join(errs))
    ctx.absorb(res, lines)
    ctx.absorb(*slow['per'], sample=0)
    ctx.absorb(*slow['e2e'], sample=0)

    # ---- 5. periodic advance (finding F38, repaired in /repo): the as-found model (Lead_periodic, PeriodicFix=FALSE) must
    # still lose a batch in TLC - that keeps the modelling of the defect honest - while the repaired model (MC_periodic)
    # passed above and the real code must conform to it in the periodic histories replayed above.
    lead = jobs['lead']
    per_div = [d for d in ctx.divergences if PATTERN_PERIODIC in (d['result'].get('patterns') or [])]
    ctx.extra_cov['periodic_asfound_model_tlc'] = lead.violated or ('clean' if lead.ok else 'not finished')
    ctx.extra_cov['periodic_divergences_on_code'] = len(per_div)
    if lead.timed_out or lead.violated != 'OnlyLegalRemovals':
        ctx.infra.append(f'as-found periodic-advance model: expected OnlyLegalRemovals to be violated, got {lead.violated} '
                         f'(ok={lead.ok}): the lead config no longer models finding F38')

    ctx.extra_cov.update({
        'writer_table_rows': len(wcases),
        'histories_total': len(gen_cases), 'histories_replayed': len(chosen_gen), 'gen_states': tot_gen,
        'age_histories_total': len(age_cases), 'age_histories_replayed': len(chosen_age),
        'periodic_histories_total': len(per_all), 'periodic_histories_replayed': len(per_cases),
        'e2e_pool': len(e2e_pool), 'e2e_replayed': len(e2e_cases) + len(big_cases), 'e2e_two_segment_replayed': len(big_cases),
        'simulated_histories_replayed': len(sim_cases),
    })
    ctx.rule = ('writer table: every (answer in 13 kinds, attempts 0..13, drop) row on the real Write. '
                'histories: every maximal TLC history (all batches enqueued, loop idle, timer off) of the generation configs '
                '(quick: 2 batches x scripts<=3 over {204,500,400,429+Retry-After:1} x drop; thorough: 3 batches x scripts<=3 '
                'incl. timeout x drop x failedWrites0 in {0,9}; age configs add clock ticks and the max-age purge; thorough adds '
                'simulated histories of 3 batches x scripts<=5 over all 13 answers), sampled by seed when above budget. '
                'non-trivial = history with a retry that is finally accepted, a purge, a local write during a request, or a '
                'periodic advance; writer rows: non-trivial = the write is refused')
    ctx.assumptions += [
        'queue half reached through verif-tagged export wrappers (replications/internal/export_verif.go, '
        'replications/export_verif.go, replications/remotewrite/export_verif.go): newReplicationQueue on a caller-supplied '
        'durable queue, SendWrite, failedWrites get/set, writer client timeout (2 min in production) set per request',
        'segments hold exactly 2 batches (maxSegmentSize chosen by the driver); ErrQueueFull is C26\'s subject',
        'the purge case of run() (60 s ticker) is executed by the driver as queue.PurgeOlderThan(now - rq.maxAge) with '
        'rq.maxAge read from the real object; one clock tick = 1 h (segment mtimes shifted with Chtimes), maxAge = 1.5 ticks',
        'a local write concurrent with SendWrite is forced only while a request is in flight; TLC checks the contract with '
        'writes between any two steps (EnqAnywhere)',
        'e2e: the timing claim is one-sided (a retry never starts before the armed wait has elapsed); a request not sent '
        'within wait + 60 s (240 s for the 6 MB two-segment runs) is reported; an e2e divergence counts only if it '
        'repeats in two re-runs',
        'an enqueue while the retry timer is armed triggers an immediate SendWrite (the code\'s receive case): modelled as the '
        'code does; the delay rule is checked on the wait returned/armed, not on the absence of earlier attempts',
    ]


META = {
    'level': 'model_checking',
    'text': 'TLC checks the replication stream design (queue scanner, SendWrite steps, run() select loop, retry timer, max-age '
            'purge) against the C27 contract exhaustively for 3 batches x response scripts (length <= 4 quick, <= 5 thorough) '
            'over {204, timeout, 429, 429+Retry-After, 400, 404, 500} x drop on/off with local writes between any two steps; '
            'every maximal history of the generation '
            'configs and every row of the delay-rule table is replayed on the real replicationQueue.SendWrite / run() and '
            'remotewrite writer against a scripted httptest remote, comparing requests, queue content and returned waits.',
    'design_ref': '5.16',
    'note': 'Trusted: TLC, the scripted remote, the driver\'s contract predicates legalRemovals/firstAcceptOrder (30 lines), '
            'Chtimes as clock. Not reached: the 60 s purge ticker and the 2 min production client timeout themselves.',
    'technique': 'TLA+ spec (Replication.tla, ReplWriterRules.tla, ReplWriterTable.tla) + TLC exhaustive + replay of TLC '
                 'histories on the real queue manager and writer',
    # measured on the shared 16-core sandbox limited to 4 TLC workers, one TLC run at a time: quick 160-190 s;
    # thorough is an estimate from its parts run once (TLC 3x5 checking config 1.26e6 states 66 s, generation configs
    # 8.98e5 + 2.49e5 states 250 s + 210 s, simulation 20 s per 800 behaviours, replay of ~32 000 histories)
    'quick_s': 180, 'thorough_s': 1200,
}
