"""C39 -- concurrent shard operations stay race-free, deadlock-free, panic-free and serializable.
Spec: TraceTSMEngine.tla (trace validation over the contract layer of TSMEngine.tla: `model`, the last-write-wins map updated by
writes -- one step per series key -- and range deletes -- one step per point --; a read takes ONE step and must return exactly
ReadFrom(model, key, lo, hi, asc) of that moment; Close excludes half-applied writes and makes later operations fail; a range delete
that Close overtakes (the Shard delete methods do not exclude Close) goes on or fails, and having failed -- never acknowledged -- it may
have deleted any part of its range; after the trace the shard is reopened and every series must read exactly `model`).
Binding, spec -> code (Close against a write in flight): TSMEngine.tla with CloseRace (MC_C39_closerace.cfg: WriteEnter ; CloseTry ;
WriteFinish ; Reopen around earlier writes and snapshot commits) is model-checked (CloseExcludesWrite) and dumped; the maximal
histories with a CloseTry are executed on a real tsdb.Shard with the write parked at the schedule point shard.write.before_engine
(after its field validation, before Engine.WritePoints): Shard.Close, called meanwhile, must not return before the write has, the write
must succeed, and the reopened shard must read exactly the model.  A Close that returns under the parked write is a VIOLATION.
Binding, code -> spec.  `engine record` runs 3-6 goroutines of random writes, cursor reads, range deletes, WriteSnapshot,
ScheduleFullCompaction, Backup and Close (after or concurrently with the last operations) on a real tsdb.Shard whose engine runs its
REAL planner and background compaction loops (compactions committed inside the traces are counted: vacuity guard), logging call/ret
lines under one mutex.  TLC (-workers 1, StateDeque, high-water mark, POSTCONDITION) accepts a trace iff some placement of the
internal steps between each call and ret explains every read and the final state.  A rejected trace is a VIOLATION (non-serializable
read / lost or resurrected point / wrong error) unless TraceTSMEngine with Relaxed = TRUE accepts that one trace (a read overlapping a
range delete of the same series returned an overwritten value of a point in the delete's range: known finding
stale_value_during_inflight_delete); a negative control (one read result of an accepted trace altered) must be rejected.
Deadlock: the recorder's watchdog (no event for 180 s) ends the run with a `stuck` line; the same seed is run again and only a
reproduced stall is reported (else exit 2).  Panics of the code under test are violations.
Race monitor: the same workload runs under `go build -race`; every DATA RACE report is real-code behaviour and is reported as a
violation of C39 unless the pair of racing functions matches a known finding (the specification contributes only the serializability
half; data-race freedom is a property of memory accesses that no TLA+ model of this granularity decides)."""
import json
import os
import re
import subprocess

import vlib

SIZES = dict(
    quick=dict(procs=4, traces=4, ops=9, race_traces=5, race_ops=12, hammer='3s'),
    thorough=dict(procs=8, traces=50, ops=9, race_traces=24, race_ops=50, hammer='10s'),
)


def _common():
    import importlib.util
    p = os.path.join(os.path.dirname(os.path.abspath(__file__)), '_tsmengine.py')
    spec = importlib.util.spec_from_file_location('_tsmengine', p)
    mod = importlib.util.module_from_spec(spec)
    spec.loader.exec_module(mod)
    return mod


def split_traces(path):
    out, cur = [], []
    with open(path) as f:
        for ln in f:
            if not ln.strip():
                continue
            cur.append(ln)
            if '"ev":"reset"' in ln:
                out.append(cur)
                cur = []
    if cur:
        out.append(cur)
    return out


def overlapping(lines):
    open_ = set()
    for ln in lines:
        e = json.loads(ln)
        if e['ev'] == 'call':
            if open_:
                return True
            open_.add(e['t'])
        elif e['ev'] == 'ret':
            open_.discard(e['t'])
    return False


def record(ctx, binary, seed, traces, ops, tag, race=False, extra=()):
    """start one recorder process; -> (trace path, Popen); stderr goes to <trace path>.err"""
    out = ctx.tmp(f'rec/{tag}.ndjson')
    sdir = ctx.tmp(f'rec/{tag}.scratch/x')
    os.makedirs(os.path.dirname(sdir), exist_ok=True)
    env = vlib.go_env()
    if race:
        env['GORACE'] = 'halt_on_error=0 exitcode=0 history_size=3'
    cmd = [binary, 'record', '-seed', str(seed), '-traces', str(traces), '-ops', str(ops), '-out', out,
           '-scratch', os.path.dirname(sdir)] + list(extra)
    return out, subprocess.Popen(cmd, env=env, stdout=subprocess.DEVNULL, stderr=open(out + '.err', 'w'))


def finish_proc(p, timeout):
    try:
        p.wait(timeout=timeout)
    except subprocess.TimeoutExpired:
        p.kill()
        p.wait()
        return None
    return p.returncode


PAT_STALE = 'stale_value_during_inflight_delete'
PAT_CLOSE_PANIC = 'delete_racing_close_panics_in_field_set_save'
PAT_CLOSE_DEADLOCK = 'delete_racing_close_deadlocks_on_index_lock'


def close_delete_deadlock(dump):
    """the watchdog's goroutine dump shows the lock cycle of the known finding: Shard.Close -> tsi1 Index.Close holds Index.mu and waits in
    LogFile.Close for the file-set references to drain; a range delete holds such a reference (DeleteSeriesRangeWithPredicate retains the
    file set for its duration) and waits for Index.mu in Index.DropSeries (function names, not line numbers)"""
    blocks = dump.split('\n\ngoroutine ')
    closer = any('tsi1.(*LogFile).Close' in b and 'tsi1.(*Index).Close' in b and 'tsdb.(*Shard).closeNoLock' in b for b in blocks)
    # the deleter holds the file-set reference for the whole of DeleteSeriesRangeWithPredicate; where exactly it is blocked
    # (Index.mu in DropSeries, a partition lock, ...) varies with the moment Close overtook it
    deleter = any(('tsm1.(*Engine).deleteSeriesRange' in b or 'tsm1.(*Engine).DeleteSeriesRangeWithPredicate' in b) for b in blocks)
    return closer and deleter


def validate(ctx, path, tag, cfg='TraceTSMEngine.cfg'):
    r = ctx.tlc('TraceTSMEngine', cfg, workers=1, timeout=2400, extra_files={'trace.ndjson': path}, dfs=True,
                tag='trace-' + tag, heap='4g')
    if r.timed_out:
        raise vlib.Inconclusive('trace validation timed out')
    if not r.ok and not r.violated and 'Error' in r.stdout and 'postcondition' not in r.stdout.lower():
        tail = '\n'.join(r.stdout.splitlines()[-40:])
        raise vlib.Inconclusive(f'trace validation failed to run:\n{tail}')
    m = re.search(r'@@HW (\d+) of (\d+)', r.stdout)
    r.hw = (int(m.group(1)), int(m.group(2))) if m else None
    return r.ok, r


def validate_all(ctx, traces, tag, stats):
    """Validate concatenated traces; a rejection is attributed to the trace holding the high-water mark, that trace is reported
    and validation continues with the traces after it."""
    pos, rounds = 0, 0
    while pos < len(traces):
        rounds += 1
        if rounds > 6:
            ctx.infra.append('trace validation: more than 5 rejected traces, giving up on the rest')
            return
        sub = ctx.tmp(f'{tag}-r{rounds}.ndjson')
        with open(sub, 'w') as f:
            for lines in traces[pos:]:
                f.writelines(lines)
        ok, r = validate(ctx, sub, f'{tag}-r{rounds}')
        if ok:
            upto = len(traces)
        else:
            hw = r.hw[0] if getattr(r, 'hw', None) else None
            if r.violated and r.violated not in ('postcondition',) and 'TModelTyped' in (r.violated or ''):
                hw = None
            acc, bad = 0, None
            for j in range(pos, len(traces)):
                n = len(traces[j])
                if hw is not None and acc < max(hw, 1) <= acc + n:
                    bad = j
                    break
                acc += n
            if bad is None:
                tail = '\n'.join(r.stdout.splitlines()[-30:])
                raise vlib.Inconclusive(f'trace validation failed without a usable high-water mark (violated={r.violated}):\n{tail}')
            upto = bad
        for j in range(pos, upto):
            ctx.traces_validated += 1
            stats['traces_accepted'] += 1
            calls = [json.loads(x) for x in traces[j] if '"ev":"call"' in x]
            stats['operations'] += len(calls)
            for c in calls:
                stats['ops'][c['op']] = stats['ops'].get(c['op'], 0) + 1
            # observation (not a verdict): range deletes that Shard.Close overtook and that returned an error after (part of) their work
            over = sum(1 for x in traces[j] if '"op":"delete"' in x and '"ok":false' in x and 'engine is closed' not in x)
            if over:
                stats['deletes_overtaken_by_close'] = stats.get('deletes_overtaken_by_close', 0) + over
                ctx.drift['delete_overtaken_by_close_failed_midway'] = ctx.drift.get('delete_overtaken_by_close_failed_midway', 0) + over
            fin = [json.loads(x) for x in traces[j] if '"ev":"final"' in x]
            commits = fin[0].get('commits', 0) if fin else 0
            stats['background_compaction_commits'] += commits
            if overlapping(traces[j]):
                stats['traces_with_overlap'] += 1
                if commits > 0:
                    ctx.nontrivial_sigs.add(f'{tag}:{j}')
            if len(ctx.samples) < 2:
                ctx.samples.append({'mode': 'trace', 'lines': [json.loads(x) for x in traces[j]][:30]})
        if ok:
            return
        bad_lines = [json.loads(x) for x in traces[upto]]
        rel = (r.hw[0] if r.hw else 0) - sum(len(traces[j]) for j in range(pos, upto))
        ctx.traces_validated += 1
        stats['traces_rejected'] += 1
        at = json.dumps(bad_lines[rel - 1]) if 1 <= rel <= len(bad_lines) else '?'
        # classification: is the rejected trace explained once a read that takes its step while a range delete of the same series
        # is in flight may return, for the points of that delete's range, any value ever stored there (known finding)? Nothing else
        # is relaxed, and only this one trace is judged that way.
        pats = []
        one = ctx.tmp(f'{tag}-rejected{rounds}.ndjson')
        with open(one, 'w') as f:
            f.writelines(traces[upto])
        ok2, _ = validate(ctx, one, f'{tag}-relaxed{rounds}', cfg='TraceTSMEngine.Relaxed.cfg')
        if ok2:
            pats = [PAT_STALE]
            stats['traces_rejected_explained_by_' + PAT_STALE] = stats.get('traces_rejected_explained_by_' + PAT_STALE, 0) + 1
        ctx.divergences.append({'case': {'mode': 'trace', 'lines': bad_lines},
                                'result': {'step': rel, 'patterns': pats,
                                           'msg': f'no placement of the operations\' effects between their call and ret lines explains the '
                                                  f'recorded trace: its line {rel} cannot be consumed ({at})'}})
        pos = upto + 1


_RACE_FRAME = re.compile(r'^\s+(\S+)\(\)\s*$')


def race_reports(text):
    """-> list of (key, report text); key = the sorted pair of the innermost influxdb functions of the two racing accesses"""
    out = []
    for blk in text.split('WARNING: DATA RACE')[1:]:
        blk = blk.split('==================')[0]
        stacks = re.split(r'\n(?=(?:Write|Read|Previous write|Previous read|Atomic|Previous atomic)[^\n]* by )', '\n' + blk)
        tops = []
        for st in stacks:
            if not re.match(r'\s*(Write|Read|Previous write|Previous read|Atomic|Previous atomic)', st):
                continue
            top = None
            for ln in st.splitlines()[1:]:
                m = _RACE_FRAME.match(ln)
                if m and 'influxdata/influxdb' in m.group(1):
                    top = m.group(1).split('/')[-1]
                    break
            tops.append(top or '?')
        key = '|'.join(sorted(set(tops[:2])))
        out.append((key, blk.strip()[:3000]))
    return out


def note_races(ctx, stats, seed, err):
    """every pair of racing functions reported by the race detector is a divergence (known only if the pair is a listed one)"""
    reps = race_reports(err)
    stats['race_reports'] = len(reps)
    seen = {}
    for key, text in reps:
        seen.setdefault(key, []).append(text)
    stats['race_pairs'] = {k: len(v) for k, v in seen.items()}
    for key, texts in seen.items():
        pats = [p for p, keys in RACE_PATTERNS.items() if key in keys]
        ctx.traces_validated += 1
        ctx.divergences.append({'case': {'mode': 'race', 'seed': seed, 'pair': key},
                                'result': {'step': -1, 'patterns': pats,
                                           'msg': f'DATA RACE between {key} ({len(texts)} reports): ' + texts[0][:2500]}})


# known data races: pattern -> pairs of racing functions (innermost influxdb frames of the two accesses; names, not line numbers)
RACE_PATTERNS = {
    # F16: indirectIndex.DeleteRange appended to and sorted, in place, the slice that TombstoneRange hands to readers
    'tombstone_slice_aliasing_race': {'tsm1.(*indirectIndex).DeleteRange|tsm1.excludeTombstones%sArray' % t
                                      for t in ('Float', 'Integer', 'Unsigned', 'String', 'Boolean')}
    | {'tsm1.(*indirectIndex).DeleteRange|tsm1.excludeTombstones%sValues' % t for t in ('Float', 'Integer', 'Unsigned', 'String', 'Boolean')}
    | {'tsm1.(*FileStore).locations|tsm1.(*indirectIndex).DeleteRange'},
    # F17: entry.add read e.vtype without the entry lock while another entry.add wrote it under the lock
    'cache_entry_vtype_race': {'tsm1.(*entry).add'},
}


def run(ctx):
    tier = ctx.tier
    sz = SIZES[tier]
    stats = {'traces_accepted': 0, 'traces_rejected': 0, 'operations': 0, 'ops': {}, 'background_compaction_commits': 0,
             'traces_with_overlap': 0}
    if getattr(ctx, 'replay_path', None):
        with open(ctx.replay_path) as f:
            data = json.load(f)
        case = data['case']
        if 'steps' in case:      # a close-race schedule (phase 0)
            binary = ctx.go_build('engine')
            res, lines = ctx.replay(binary, [case], procs=1, par=1, timeout=600)
            ctx.absorb(res, lines)
            ctx.rule = 'replay of one stored close-race schedule: ' + os.path.basename(ctx.replay_path)
            return
        if case.get('mode') != 'trace':
            raise vlib.Inconclusive('only stored traces can be re-validated (races, stalls and panics are re-found by re-running the check)')
        p = ctx.tmp('stored.ndjson')
        with open(p, 'w') as f:
            for ln in case['lines']:
                f.write(json.dumps(ln, separators=(',', ':')) + '\n')
        validate_all(ctx, split_traces(p), 'stored', stats)
        ctx.rule = 'validation of one stored trace: ' + os.path.basename(ctx.replay_path)
        return
    binary = ctx.go_build('engine')
    # 0. Shard.Close against a write in flight, as forced schedules: TLC enumerates TSMEngine with CloseRace (WriteEnter ; CloseTry ;
    # WriteFinish ; Reopen around snapshots and earlier writes); each maximal history is executed on a real shard with the write
    # parked at shard.write.before_engine: Close must not return before the write has, the write must succeed, and the reopened
    # shard must serve it
    T = _common()
    cr_cfg = 'TSMEngine.MC_C39_closerace.cfg'
    cr = ctx.tlc_must_pass('TSMEngine', cr_cfg, timeout=600, dump=True, coverage=True)
    ctx.check_coverage(cr, ['WriteEnter', 'CloseTry', 'WriteFinish', 'CloseDoneReopen'])
    chs, cstats = T.histories(ctx, cr.dump_path, want=150 if tier == 'quick' else 900, budget_s=20 if tier == 'quick' else 120,
                              exact_leaves=False)     # (one parsing pass over the long histories in both tiers; the thorough tier replays 6x as many)
    chs = [h for h in chs if any(st['a'] == 'CloseTry' for st in h)] or chs
    T.require_actions(cstats, ['WriteEnter', 'CloseTry', 'WriteFinish', 'Reopen'])
    cc = T.cfg_constants(cr_cfg)
    ccases = T.make_cases('C39', chs, T.set_size(cc['Keys']), T.set_size(cc['Times']), lambda i: [i])
    if not any(st['a'] == 'CloseTry' for c in ccases for st in c['steps']):
        raise vlib.Inconclusive('vacuity guard: no close-race schedule contains a CloseTry step')
    cres, clines = ctx.replay(binary, ccases, par=1, timeout=900, case_timeout='90s')
    ctx.absorb(cres, clines)
    stats['close_race'] = {'generation': cstats, 'schedules_replayed': len(ccases),
                           'schedules_in_which_close_waited': sum(1 for r in cres if 'close-waits-for-write' in
                                                                  ((r.get('extra') or {}).get('features') or []))}
    if not stats['close_race']['schedules_in_which_close_waited'] and not ctx.divergences:
        raise vlib.Inconclusive('vacuity guard: in no replayed schedule was Shard.Close observed waiting for the write in flight')
    # 1. record: several recorder processes side by side
    procs = []
    for i in range(sz['procs']):
        procs.append((i, ctx.seed * 1000 + i) + record(ctx, binary, ctx.seed * 1000 + i, sz['traces'], sz['ops'], f'n{i}'))
    # the race build is started while they run (cold: minutes; warm: seconds)
    race_bin = ctx.go_build('engine', race=True)
    # race monitor: the same operation mix without pauses (too dense to be validated as a trace), preceded by 4 goroutines on one
    # tsm1.Cache (where callers meet without the engine lock)
    stress = ('-stress', '-cache-hammer', sz['hammer'])
    rp = record(ctx, race_bin, ctx.seed * 1000 + 777, sz['race_traces'], sz['race_ops'], 'race', race=True, extra=stress)
    files = []
    for i, seed, out, p in procs + [(-1, ctx.seed * 1000 + 777) + rp]:
        rc = finish_proc(p, 2400)
        err = open(out + '.err').read()
        tag = 'race' if i < 0 else f'n{i}'
        if (rc == 3 or rc is None) and close_delete_deadlock(err):
            # known finding: the goroutine dump itself shows the lock cycle (no reproduction needed: it is not a matter of time)
            ctx.traces_validated += 1
            stats['recorder_stalls'] = stats.get('recorder_stalls', 0) + 1
            ctx.divergences.append({'case': {'mode': 'stall', 'seed': seed, 'race': i < 0},
                                    'result': {'step': -1, 'patterns': [PAT_CLOSE_DEADLOCK],
                                               'msg': 'Shard.Close and a concurrent range delete block each other for ever (goroutine dump of the '
                                                      'watchdog): ' + '\n\ngoroutine '.join(b for b in err.split('\n\ngoroutine ')
                                                                                            if 'LogFile).Close' in b or 'Index).DropSeries' in b)[:5000]}})
            if i >= 0 and os.path.exists(out):
                files.append((tag, out))     # the traces completed before the stall are still validated
            continue
        if rc == 3 or rc is None:
            # stall: only a reproduced one counts
            out2, p2 = record(ctx, race_bin if i < 0 else binary, seed, sz['race_traces'] if i < 0 else sz['traces'],
                              sz['race_ops'] if i < 0 else sz['ops'], tag + '-again', race=i < 0, extra=stress if i < 0 else ())
            rc2 = finish_proc(p2, 2400)
            if rc2 == 3 or rc2 is None:
                dump = open(out2 + '.err').read()
                ctx.traces_validated += 1
                ctx.divergences.append({'case': {'mode': 'stall', 'seed': seed, 'race': i < 0},
                                        'result': {'step': -1, 'patterns': [PAT_CLOSE_DEADLOCK] if close_delete_deadlock(dump) else [],
                                                   'msg': 'the workload made no progress for the watchdog period, '
                                                   'twice with the same seed; goroutine dump: ' + dump[-6000:]}})
                continue
            # not reproducible: inconclusive (exit 2) -- unless something else of this run is a violation, which is reported first
            ctx.infra.append(f'recorder {tag} stalled once (seed {seed}) and did not stall when run again: not reproducible; '
                             'goroutines of the stalled run: ' + err[:3000])
            if i < 0:
                note_races(ctx, stats, seed, err)
            elif os.path.exists(out):
                files.append((tag, out))
            continue
        if rc != 0:
            kind = 'panic' if ('panic:' in err or 'fatal error:' in err) else 'recorder failure'
            at = err.find('panic:') if 'panic:' in err else max(0, len(err) - 6000)
            head = err[at:at + 6000]
            # known finding: a range delete racing with Shard.Close panics in the field set's change manager (function chain of the
            # panicking goroutine, not line numbers)
            first = '\n'.join(head.split('\n\ngoroutine ')[:2])     # the panic line and the panicking goroutine's stack
            pats = []
            if ('send on closed channel' in first and 'measurementFieldSetChangeMgr).RequestSave' in first
                    and '(*Engine).deleteSeriesRange' in first and '(*Shard).DeleteSeriesRange' in first):
                pats = [PAT_CLOSE_PANIC]
            ctx.traces_validated += 1
            ctx.divergences.append({'case': {'mode': kind, 'seed': seed, 'race': i < 0},
                                    'result': {'step': -1, 'patterns': pats, 'msg': f'{kind} in the concurrent workload (seed {seed}, exit {rc}): '
                                               + head}})
            stats['recorder_crashes'] = stats.get('recorder_crashes', 0) + 1
            if i < 0:
                note_races(ctx, stats, seed, err)     # what the race detector reported before the crash
            if i >= 0 and os.path.exists(out):
                files.append((tag, out))     # the traces completed before the crash are still validated
            continue
        if i >= 0:
            files.append((tag, out))
        else:
            stats['race_monitor_operations'] = sum(1 for ln in open(out) if '"ev":"call"' in ln)
            note_races(ctx, stats, seed, err)
    # 2. validate every recorded trace
    alltraces = []
    for tag, out in files:
        alltraces += [t for t in split_traces(out) if '"ev":"reset"' in t[-1]]     # (a crashed recorder leaves a partial last trace)
    if not alltraces:
        raise vlib.Inconclusive('no trace was recorded')
    validate_all(ctx, alltraces, 'all', stats)
    # 3. negative control: alter one value read in an accepted trace; the validation must reject it
    ctl = None
    for lines in alltraces:
        for j, ln in enumerate(lines):
            e = json.loads(ln)
            if e.get('ev') == 'ret' and e.get('op') == 'read' and e.get('res'):
                e['res'][0][1] = e['res'][0][1] + 1000
                ctl = lines[:j] + [json.dumps(e, separators=(',', ':')) + '\n'] + lines[j + 1:]
                break
        if ctl:
            break
    if ctl is None:
        raise vlib.Inconclusive('vacuity guard: no read with a non-empty result in any trace')
    p = ctx.tmp('control.ndjson')
    with open(p, 'w') as f:
        f.writelines(ctl)
    ok, r = validate(ctx, p, 'control')
    if ok:
        raise vlib.Inconclusive('negative control: a trace with an altered read result was accepted -- the trace spec does not bind reads')
    stats['negative_control_rejected_at_line'] = r.hw[0] if r.hw else None
    # vacuity guards
    need = ['write', 'read', 'delete', 'snapshot', 'compact', 'backup', 'close']
    missing = [o for o in need if not stats['ops'].get(o)]
    if missing:
        raise vlib.Inconclusive(f'vacuity guard: operations never recorded: {missing}')
    if stats['background_compaction_commits'] == 0:
        raise vlib.Inconclusive('vacuity guard: no background compaction committed inside any trace')
    if stats['traces_with_overlap'] == 0:
        raise vlib.Inconclusive('vacuity guard: no two operations overlapped in any trace')
    ctx.evaluations += stats['operations']
    ctx.extra_cov['traces'] = stats
    ctx.exhaustive = False
    ctx.rule = ('free-running traces of 3-6 goroutines x %d operations on a real shard with its real background compactions; every trace '
                'is validated line by line against TraceTSMEngine.tla (every read must equal the model at one moment between its call '
                'and ret; the reopened shard must read exactly the final model). non-trivial = a trace in which operations of different '
                'goroutines overlap and at least one background compaction committed. evaluations = recorded operations. The same '
                'workload under the race detector: every DATA RACE pair (innermost influxdb functions of the two accesses) is reported.'
                % sz['ops'])
    ctx.assumptions += [
        'a range delete never overlaps a snapshot-writing operation (WriteSnapshot, ScheduleFullCompaction, Backup): the recorder '
        'serialises them, that window is known finding F1/F1b of C03; background cache snapshots are switched off for the same reason',
        'reads are single-series cursor reads; a batch write is atomic per series key, a range delete per point (what the engine '
        'promises to a reader that overlaps them)',
        'a stall is reported only when it happens twice with the same seed (watchdog 180 s without any event)',
        'the race detector sees only the interleavings that happened in this run',
    ]


META = {
    'level': 'model_checking',
    'text': 'Concurrent workloads (writes, cursor reads, range deletes, snapshots, scheduled full compactions with the real compaction '
            'loops, backups, close) are recorded as call/ret traces from a real tsdb.Shard and validated with TLC against '
            'TraceTSMEngine.tla: some placement of each operation\'s effect between its call and ret must explain every read and the '
            'state served after a restart; TLC-enumerated schedules of Shard.Close against a write parked before its engine write are '
            'executed on the real shard (Close must wait, the write must succeed and survive the reopen); the same workload runs under the race detector; stalls (reproduced) and panics are violations.',
    'design_ref': '5.1',
    'note': 'Trusted: TLC, the recorder (one log mutex; results logged as read), the race detector. The specification decides '
            'serializability only; data races are observed, not modelled.',
    'technique': 'TLA+ trace validation (TraceTSMEngine.tla over the contract layer of TSMEngine.tla) + replay of TLC close-vs-write '
                 'schedules (TSMEngine.tla, CloseRace) on the real shard with forced schedules + race detector monitor',
    'quick_s': 150, 'thorough_s': 1700,
}
