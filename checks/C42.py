"""C42 — metadata listings of tsdb.Store: exactly the live names, sorted, authorized.

Spec: TSIMeta.tla.  Contract: Result(q) for MeasurementNames / TagKeys / TagValues over two shards, an authorizer (nil, open,
fine-grained hiding chosen series), shard ids and a condition from a bounded grammar.  TLC checks the implementation layer
(raw per-shard tag iterators that keep names until the measurement is dropped) against the contract for every reachable
world and finds the open-authorizer staleness (F12) as a lead.  Binding: simulated TLC histories of writes and deletes, each
step followed by a seeded sample of queries with the spec's expected result, are replayed on a real tsdb.Store with two
shards (WriteToShard, DeleteSeriesWithPredicate / DeleteSeries); every listing must be strictly ascending and equal the
spec's sets."""
import json
import os
import re
import vlib

SPEC = 'TSIMeta'


def cfg(consts, invariants, view=True):
    lines = ['SPECIFICATION Spec', 'CONSTANTS'] + [f'  {k} = {v}' for k, v in consts.items()]
    lines.append('INVARIANTS ' + invariants)
    if view:
        lines.append('VIEW View')
    lines.append('CHECK_DEADLOCK FALSE')
    return '\n'.join(lines) + '\n'


def histories(r):
    out, seen = [], set()
    for ln in r.printed:
        ln = ln.strip()
        if not ln.startswith('"@@J') or not ln.endswith('"'):
            continue
        body = ln[4:-1].replace('\\"', '"').replace('\\\\', '\\')
        if body in seen:
            continue
        seen.add(body)
        try:
            out.append(json.loads(body))
        except Exception:
            pass
    return out


def driver_stderr_heads(ctx):
    """First lines of what died drivers wrote to stderr (the framework reports only the tail, which for a Go runtime
    crash is the end of the goroutine dump; the cause is at the head)."""
    import glob
    heads = []
    for f in sorted(glob.glob(os.path.join(ctx.scratch, 'rp*', 'err*.txt'))):
        try:
            if os.path.getsize(f) > 0:
                with open(f, errors='replace') as fh:
                    heads.append(os.path.basename(f) + ': ' + fh.read(2500))
        except OSError:
            pass
    return heads

def replay_retry(ctx, binary, cases, **kw):
    """ctx.replay, then one retry (fresh processes) of the cases that got no verdict because a driver process died or a case
    hung. The real tsi1 code has rare races under background compaction (use-after-unmap SIGSEGV, delete vs. compaction
    deadlock: reported as findings, not this property's subject); a case that fails to produce a verdict twice stays
    inconclusive (exit 2). What happened is recorded in the evidence (driver_crashes)."""
    n_infra = len(ctx.infra)
    res, lines = ctx.replay(binary, cases, **kw)
    lost = [i for i, r in enumerate(res) if not r.get('ok') and (r.get('kind') == 'hang' or
            (r.get('kind') == 'infra' and 'no result' in (r.get('msg') or '')))]
    heads = driver_stderr_heads(ctx)
    if lost and len(lost) <= max(50, len(cases) // 5):
        vlib.log(f'{len(lost)} cases without verdict (driver died / hung); retrying them once')
        for h in heads[:3]:
            vlib.log('driver stderr head: ' + h[:1500])
        ctx.extra_cov['driver_crashes'] = {'cases_retried': len(lost), 'stderr_heads': [h[:600] for h in heads[:3]]}
        del ctx.infra[n_infra:]
        kw2 = dict(kw)
        kw2['procs'] = min(kw.get('procs') or 4, max(1, len(lost)))
        res2, _ = ctx.replay(binary, [cases[i] for i in lost], **kw2)
        for j, i in enumerate(lost):
            r = dict(res2[j])
            r['id'] = i
            res[i] = r
    return res, lines

def run(ctx):
    thorough = ctx.tier == 'thorough'
    txt = open(os.path.join(ctx.spec_dir, SPEC + '.tla')).read()
    tab = [{'m': m, 't': {'k1': a, 'k2': b}}
           for m, a, b in re.findall(r'\[m \|-> "(\w+)", t \|-> \[k1 \|-> "(\w*)",\s*k2 \|-> "(\w*)"\]\]', txt)]
    from concurrent.futures import ThreadPoolExecutor
    ncpu = vlib.NCPU
    pool = ThreadPoolExecutor(max_workers=max(1, min(3, ncpu // 3)))
    ns = 4 if not thorough else 5
    base = dict(NS=ns, MaxOps=3 if not thorough else 4, Seed=ctx.seed, QPerStep=1, RecHist='FALSE')
    f_mc = pool.submit(ctx.tlc, SPEC, cfg(base, 'TypeOK ImplExact NoLeak'), timeout=1700, coverage=True, tag='mc', workers=min(6, ncpu), heap='4g')
    f_lead = pool.submit(ctx.tlc, SPEC, cfg(base, 'NoStaleNames'), timeout=900, tag='lead', workers=2, heap='2g', count=False)
    nsim = 160 if not thorough else 600
    gen = dict(NS=ns, MaxOps=6 if not thorough else 7, Seed=ctx.seed, QPerStep=10 if not thorough else 12, RecHist='TRUE')
    f_gen = pool.submit(ctx.tlc, SPEC, cfg(gen, 'Emit', view=False), timeout=1700, tag='gen', workers=min(4, ncpu), heap='3g',
                        simulate={'num': nsim}, depth=gen['MaxOps'] + 2)
    binary = ctx.go_build('tsimeta')
    r = f_mc.result()
    if r.timed_out or not r.ok:
        raise vlib.Inconclusive('TLC did not pass: ' + '\n'.join(r.stdout.splitlines()[-30:]))
    ctx.check_coverage(r, ['Write', 'Delete'])
    lr = f_lead.result()
    if lr.timed_out or (not lr.ok and not lr.violated):
        raise vlib.Inconclusive('lead run failed: ' + lr.stdout[-800:])
    ctx.extra_cov['model_leads'] = {'F12_stale_names_on_raw_path': {'violated_on_model': lr.violated, 'states': lr.distinct}}
    g = f_gen.result()
    pool.shutdown()
    if g.timed_out or not g.ok:
        raise vlib.Inconclusive('generation run failed: ' + g.stdout[-800:])
    hs = histories(g)
    if len(hs) < 20:
        raise vlib.Inconclusive(f'only {len(hs)} histories generated')
    rng = ctx.rng
    cases = []
    for h in hs:
        for _ in range(1 if not thorough else 2):
            cases.append({'tab': tab[:ns], 'steps': h, 'variant': rng.randrange(4), 'maxLog': rng.choice([0, 0, 1] if not thorough else [0, 0, 0, 0, 0, 1]),
                          'cacheSize': rng.choice([100, 0]), 'delApi': rng.choice(['predicate', 'influxql'])})
    ctx.exhaustive = False
    ctx.extra_cov['histories'] = len(hs)
    tolerate = ','.join(k['pattern'] for k in ctx.known if k.get('property') == ctx.id and not str(k.get('status', 'open')).startswith('fixed'))
    res, lines = replay_retry(ctx, binary, cases, timeout=1700, procs=min(16, ncpu), args={'tolerate': tolerate}, case_timeout='400s')
    ctx.absorb(res, lines)
    ctx.extra_cov['queries_compared'] = sum(int(x.get('evals', 0) or 0) for x in res)
    ctx.rule = ('a case = one simulated TLC history of Write(shard, <=2 series)/Delete(measurement[, tag=value], time range over shard '
                '1, 2 or both) on a two-shard store, each step followed by a seeded sample of queries (MeasurementNames/TagKeys/'
                'TagValues x authorizer nil/open/5 fine-grained x shard ids x name/key/filter clauses); non-trivial = the history '
                'contains a delete; evaluations = listings compared (sortedness, uniqueness, grouping, set equality)')
    ctx.assumptions += [
        'MeasurementNames is replayed with a name clause or a single tag clause (AND of clauses there has legacy per-measurement semantics)',
        'a TagKeys group without keys lists no name (the statement executor skips it): DRIFT, not a violation',
        'deletes cover whole shards (time range = shard 1, shard 2 or both), so "series has data in the shard" is exact',
    ]


META = {
    'level': 'model_checking',
    'text': 'TLC checks for every reachable two-shard world that the modelled Store paths return the contract listing (exact on '
            'the per-series path, superset on the raw open-authorizer path, never a name without a visible series) and finds the '
            'stale-name lead F12; simulated histories with sampled queries are replayed on a real tsdb.Store and every listing is '
            'compared for sortedness, uniqueness and set equality with the spec.',
    'design_ref': '5.8',
    'note': 'Trusted: TLC, the driver\'s rendering of conditions as InfluxQL text, fake authorizers. The implementation layer of the '
            'spec is an approximation for the default index log size; the replay oracle is the contract layer only.',
    'technique': 'TLA+ spec (TSIMeta.tla) + TLC + replay of TLC histories and queries on a real two-shard tsdb.Store',
    'quick_s': 120, 'thorough_s': 1200,
}
