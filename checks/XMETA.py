"""XMETA -- database and retention-policy meta data of v1/services/meta (extra module, not tied to one listed property).
Spec: MetaData.tla.  The meta data is modelled as the code keeps it (sequences with first-match lookup, clone + commit or
discard); Apply(ds, g, op) is the transition function of CreateDatabase, CreateDatabaseWithRetentionPolicy, DropDatabase,
CreateRetentionPolicy, UpdateRetentionPolicy, DropRetentionPolicy, CreateShardGroup and reload, with the error class and
"commits (Index + 1)" as part of every outcome.  Durations are points of an ordered scale (0, below the minimum, 1h, .., 2d,
.., 180d, longer); the replay driver maps names and points to real values.

TLC: (a) the intended design (quirk constants FALSE) satisfies the contract -- unique non-empty names, the default policy
names an existing policy, duration rules, a refused operation changes and commits nothing, operations touch the named
database / policy only, accepted operations store what was asked with the shard group duration defaulted by the DOCUMENTED
rule, reload is the identity -- for two configurations (names in focus / durations in focus);  (b) leads: with one quirk of
the code switched on the contract is violated on the model; the counterexample is replayed on the real client and must
reproduce there with its known-finding predicate (otherwise the spec is wrong about the code: exit 2).
Binding: generation runs of the model WITH the code's quirks: one witness history per distinct meta data plus one probe per
(meta data, operation) -- every operation of the model in every reached state --, and random behaviours (simulation, refused
operations included), all replayed on the real meta.Client on a kv store; after every step the driver compares error class,
index movement, the full listing, all lookups, a second client opened on the same store, and the listing after reload."""
import json
import os
import random
import re
from concurrent.futures import ThreadPoolExecutor

import vlib

SPEC = 'MetaData'
# (cfg, invariant TLC must find violated, known-finding pattern the real client must show)
LEADS = [('MetaData.Lead_drop.cfg', 'Inv_Default', 'default_rp_dangling_after_drop'),
         ('MetaData.Lead_rename.cfg', 'Inv_Default', 'default_rp_dangling_after_rename'),
         ('MetaData.Lead_emptyname.cfg', 'Inv_Names', 'rp_renamed_to_empty_name'),
         ('MetaData.Lead_halfyear.cfg', 'Inv_ProbeOutcomes', 'shard_group_duration_default_at_180d')]
# operations that must have advanced some witness history (DropDatabase only ever leads back to a state BFS has already seen:
# it is covered as a probe in every state and as a step in the simulated behaviours) / that must have been probed
STEP_ACTIONS = ['createdb', 'createdbrp', 'createrp', 'droprp', 'updaterp', 'addsg']
PROBE_ACTIONS = ['createdb', 'createdbrp', 'dropdb', 'createrp', 'droprp', 'updaterp', 'addsg', 'reload']
ERR_CLASSES = ['ok', 'namerequired', 'toolow', 'replica', 'incompatible', 'dbnotfound', 'rpnotfound', 'exists', 'nameexists', 'conflict']


def squeeze(text):
    return ' '.join(text.split())


def split_state(body):
    """'/\\ a = ...\\n/\\ b = ...' -> {name: raw TLA text}"""
    out = {}
    for part in ('\n' + body).split('\n/\\ ')[1:]:
        name, _, rest = part.partition(' = ')
        out[name.strip()] = rest
    return out


def iter_raw_states(path):
    buf = []
    with open(path) as f:
        for line in f:
            if line.startswith('State ') and line.rstrip().endswith(':'):
                if buf:
                    yield split_state(''.join(buf))
                buf = []
            else:
                buf.append(line)
    if buf and ''.join(buf).strip():
        yield split_state(''.join(buf))


def read_generation(rng, dump_path, probe_budget):
    """nodes: key -> witness history text; probes grouped by node key (sampled by seed when above budget)."""
    nodes, probes = {}, {}
    nprobes = 0
    acts, errs, pacts = {}, {}, {}
    for st in iter_raw_states(dump_path):
        key = squeeze(st['dbs']) + '|' + st['nsg'].strip()
        leaf = squeeze(st['leaf'])
        if leaf == '<<>>':
            nodes[key] = squeeze(st['hist'])
            for a in re.findall(r' a \|-> "(\w+)"', nodes[key]):
                acts[a] = acts.get(a, 0) + 1
        else:
            probes.setdefault(key, []).append(leaf)
            nprobes += 1
            m = re.search(r'err \|-> "(\w+)"', leaf)
            errs[m.group(1)] = errs.get(m.group(1), 0) + 1
            m = re.search(r' a \|-> "(\w+)"', leaf)
            pacts[m.group(1)] = pacts.get(m.group(1), 0) + 1
    missing = [k for k in probes if k not in nodes]
    if missing:
        raise vlib.Inconclusive(f'{len(missing)} probe state(s) without their node in the dump')
    chosen = nprobes
    if probe_budget and nprobes > probe_budget:
        keep = set(rng.sample(range(nprobes), probe_budget))
        i = 0
        for k in sorted(probes):
            sel = []
            for p in probes[k]:
                if i in keep:
                    sel.append(p)
                i += 1
            probes[k] = sel
        chosen = probe_budget
    return nodes, probes, nprobes, chosen, acts, errs, pacts


def to_tla(v):
    """parsed TLC value (lib/tlaval, not flattened) -> TLA+ text"""
    if isinstance(v, bool):
        return 'TRUE' if v else 'FALSE'
    if isinstance(v, int):
        return str(v)
    if isinstance(v, str):
        return '"' + v.replace('\\', '\\\\').replace('"', '\\"') + '"'
    if isinstance(v, list):
        return '<<' + ', '.join(to_tla(x) for x in v) + '>>'
    if isinstance(v, dict):
        if '#set' in v and len(v) == 1:
            return '{' + ', '.join(to_tla(x) for x in v['#set']) + '}'
        return '[' + ', '.join(f'{k} |-> {to_tla(x)}' for k, x in v.items()) + ']'
    raise vlib.Inconclusive(f'cannot print TLC value {v!r}')


def cfg_constant(ctx, cfg, name):
    text = open(os.path.join(ctx.spec_dir, cfg)).read()
    m = re.search(r'(?m)^\s*' + name + r' = (.*)$', text)
    return m.group(1).strip() if m else None


def replay_saved(ctx):
    with open(ctx.replay_path) as f:
        saved = json.load(f)
    ctx.seed = int(saved.get('seed', ctx.seed))
    binary = ctx.go_build('metadata')
    res, lines = ctx.replay(binary, [saved['case']], procs=1, timeout=600)
    ctx.absorb(res, lines)
    ctx.states = ctx.transitions = 1
    ctx.rule = 'replay of one stored case'


def run(ctx):
    if getattr(ctx, 'replay_path', None):
        return replay_saved(ctx)
    tier = ctx.tier
    quick = tier == 'quick'
    sc = float(os.environ.get('VERIF_TIMEOUT_SCALE', '1') or '1')   # development on an overloaded machine only
    ncpu = vlib.NCPU
    half = max(1, min(4, ncpu // 2))
    binary = ctx.go_build('metadata')

    # ---- 1. the intended design satisfies the contract (two configurations side by side)
    def mc(cfg):
        return ctx.tlc_must_pass(SPEC, cfg, timeout=sc * (600 if quick else 2400), workers=half, heap='3g', tag='mc-' + cfg.split('.')[1])

    # ---- 2. leads
    def lead(item):
        cfg, inv, pattern = item
        r = ctx.tlc(SPEC, cfg, timeout=sc * 300, workers=1, heap='1g', tag='lead-' + cfg.split('.')[1])
        if r.timed_out:
            raise vlib.Inconclusive(f'TLC timed out on {cfg}')
        if r.violated != inv or not r.trace:
            raise vlib.Inconclusive(f'{cfg}: TLC no longer finds {inv} violated (violated={r.violated}); the spec and the known finding '
                                    f'{pattern} are out of step\n' + r.stdout[-1500:])
        states = [s for _, s in r.trace]
        last = states[-1]
        if last.get('leaf'):
            case = {'hist': to_tla(states[-2]['hist']), 'probes': [to_tla(last['leaf'])]}
        else:
            case = {'hist': to_tla(last['hist']), 'probes': []}
        auto = cfg_constant(ctx, cfg, 'AutoCreate') == 'TRUE'
        return pattern, len(r.trace), [dict(case, conc=k, store='bolt' if k == 3 else 'inmem', auto=auto, lead=pattern) for k in range(6)]

    # ---- 3. generation
    def gen(cfg, budget):
        # one worker: strict breadth-first order, so that (with nops hidden by the VIEW) every state is first reached with the
        # fewest operations and the set of nodes does not depend on the scheduling of TLC's worker threads
        g = ctx.tlc_must_pass(SPEC, cfg, timeout=sc * (600 if quick else 2400), workers=1, heap='3g', dump=True, tag='gen-' + cfg.split('.')[1])
        nodes, probes, total, chosen, acts, errs, pacts = read_generation(random.Random(f'{ctx.seed}/{cfg}'), g.dump_path, budget)
        os.remove(g.dump_path)
        auto = cfg_constant(ctx, cfg, 'AutoCreate') == 'TRUE'
        cases = []
        for i, k in enumerate(sorted(nodes)):
            cases.append({'hist': nodes[k], 'probes': probes.get(k, []), 'conc': i, 'store': 'bolt' if i % 16 == 5 else 'inmem', 'auto': auto, 'lead': ''})
        return cfg, cases, {'nodes': len(nodes), 'probes': total, 'probes_replayed': chosen, 'step_actions': acts, 'probe_outcomes': errs, 'probe_actions': pacts}

    # ---- 4. simulation
    def sim(cfg, num, depth):
        workers = half
        r = ctx.tlc(SPEC, cfg, timeout=sc * (600 if quick else 1800), workers=workers, heap='2g', simulate={'num': max(1, num // workers)}, depth=depth,
                    tag='sim')
        if r.timed_out or not r.ok:
            raise vlib.Inconclusive('simulation run failed: ' + r.stdout[-1500:])
        cases = []
        auto = cfg_constant(ctx, cfg, 'AutoCreate') == 'TRUE'
        for i, fn in enumerate(sorted(os.listdir(r.sim_dir))):
            text = open(os.path.join(r.sim_dir, fn)).read()
            j = text.rfind('/\\ hist = ')
            if j < 0:
                continue
            body = split_state(text[text.rfind('\nSTATE_'):].split('==', 1)[1])
            h = squeeze(body['hist'])
            if h != '<<>>':
                cases.append({'hist': h, 'probes': [], 'conc': 1000 + i, 'store': 'bolt' if i % 16 == 5 else 'inmem', 'auto': auto, 'lead': ''})
        if not cases:
            raise vlib.Inconclusive('simulation produced no behaviours')
        return cases

    gen_budget = 60000 if quick else 250000
    errs = []
    with ThreadPoolExecutor(max_workers=2) as ex:
        f_mc = [ex.submit(mc, f'MetaData.MC_{tier}.cfg'), ex.submit(mc, f'MetaData.MCdur_{tier}.cfg')]
        mcs = []
        for f in f_mc:
            try:
                mcs.append(f.result())
            except vlib.Inconclusive as e:
                errs.append(str(e))
    if errs:
        raise vlib.Inconclusive(' | '.join(errs)[:3000])
    with ThreadPoolExecutor(max_workers=max(1, min(4, ncpu))) as ex:
        lead_res = list(ex.map(lead, LEADS))
    leads = {}
    for pattern, tlen, lcases in lead_res:
        lres, llines = ctx.replay(binary, lcases, procs=2, timeout=sc * 120)
        ctx.absorb(lres, llines, sample=1)
        reproduced = sum(1 for x in lres if not x.get('ok') and pattern in (x.get('patterns') or []))
        leads[pattern] = {'tlc_trace_len': tlen, 'replayed_concretisations': len(lcases), 'reproduced_on_real_client': reproduced}
        # (a lead replay that fails in some OTHER way is a divergence of its own: it was absorbed above and is reported)
        if reproduced == 0 and all(x.get('ok') for x in lres):
            raise vlib.Inconclusive(f'the TLC counterexample for {pattern} does not reproduce on the real meta client: the model is wrong '
                                    'about the code (or the code was repaired: flip the quirk constant in the MetaData cfgs and retire the finding)')
    ctx.extra_cov['leads'] = leads

    with ThreadPoolExecutor(max_workers=3) as ex:
        f_gen = [ex.submit(gen, f'MetaData.Gen_{tier}.cfg', gen_budget), ex.submit(gen, f'MetaData.Gendur_{tier}.cfg', gen_budget)]
        f_sim = ex.submit(sim, f'MetaData.Sim_{tier}.cfg', 240 if quick else 800, 10 if quick else 16)
        gens = []
        for f in f_gen:
            try:
                gens.append(f.result())
            except vlib.Inconclusive as e:
                errs.append(str(e))
        try:
            sim_cases = f_sim.result()
        except vlib.Inconclusive as e:
            errs.append(str(e))
    if errs:
        raise vlib.Inconclusive(' | '.join(errs)[:3000])

    # vacuity guards: every operation advanced some history, every error class was the outcome of some probe
    acts, outcomes, pacts = {}, {}, {}
    for _, _, st in gens:
        for src, dst in ((st['step_actions'], acts), (st['probe_outcomes'], outcomes), (st['probe_actions'], pacts)):
            for a, n in src.items():
                dst[a] = dst.get(a, 0) + n
    ndiv = len(ctx.divergences)          # (the reproduced leads)
    gen_stats = {}
    sampled = False
    for cfg, cases, st in gens:
        gen_stats[cfg] = st
        sampled = sampled or st['probes_replayed'] < st['probes']
        res, lines = ctx.replay(binary, cases, timeout=sc * (900 if quick else 3000), case_timeout='300s')
        ctx.absorb(res, lines, sample=1)
    res, lines = ctx.replay(binary, sim_cases, timeout=sc * (600 if quick else 1800))
    ctx.absorb(res, lines, sample=1)
    zero = [a for a in STEP_ACTIONS if not acts.get(a)] + [e for e in ERR_CLASSES if not outcomes.get(e)] + [a for a in PROBE_ACTIONS if not pacts.get(a)]
    if zero and len(ctx.divergences) == ndiv:
        raise vlib.Inconclusive(f'vacuity guard: never generated: {zero}')

    ctx.exhaustive = not sampled
    ctx.extra_cov['generation'] = gen_stats
    ctx.extra_cov['simulated_behaviours_replayed'] = len(sim_cases)
    ctx.extra_cov['probe_outcomes'] = outcomes
    ctx.extra_cov['model_checking'] = [{'cfg': f'MetaData.MC_{tier}.cfg', 'distinct': mcs[0].distinct}, {'cfg': f'MetaData.MCdur_{tier}.cfg', 'distinct': mcs[1].distinct}]
    ctx.rule = ('generation (one TLC worker, strict BFS): for every meta data state TLC reaches within MaxOps changing operations (two configurations: 2 databases x 3 '
                'policy names / 1 database x 2 names with the duration scale), one witness history is replayed step by step and EVERY '
                'operation of the model is probed in that state on a fresh client (sampled by seed when above budget); simulation: random '
                'behaviours including refused and idle operations; leads: counterexamples of the contract under the code\'s quirks. After '
                'every step: error class, index movement, listing, lookups, second client on the same store, listing after reload. '
                'non-trivial = case whose final state holds at least one database with a policy; distinct by its operation sequence. '
                'Vacuity guards: every operation kind advanced a witness history (DropDatabase: probes and simulation only), every '
                'operation kind and every error class occurred among the probes (the MC configurations share Next and the domains)')
    ctx.assumptions += [
        'single meta client, operations one at a time (the client serialises them under its mutex); kv store errors are not injected',
        'durations are concretised per case, one value per point of the scale (0, <1h incl. negative, 1h, (1h,1d), 1d, (1d,2d), 2d, (2d,7d), 7d, (7d,180d), 180d, >180d); "6 months" = 180 days',
        'UpdateRetentionPolicy is driven with Name / Duration / ShardGroupDuration (not ReplicaN); names longer than 255 bytes are not modelled',
        'the order of databases / policies in the listing is compared as drift only',
    ]


META = {
    'extra': True,
    'level': 'model_checking',
    'text': 'TLC checks the contract of database / retention-policy meta data (unique names, default policy exists, duration rules, refused '
            'operations change and commit nothing, frame conditions, documented shard-group-duration defaulting, reload identity) on the '
            'intended design, finds it violated under four quirks of the code (leads, reproduced on the real client), and every operation in '
            'every reached state of the model with the code\'s quirks is replayed on the real meta.Client with persist + reload after every step.',
    'design_ref': '5.11',
    'note': 'Trusted: TLC, the driver\'s concretisation tables and TLA+ value parser (150 lines), the four known-finding predicates. '
            'Small scope: 2 databases, 3 policy names, 12 duration points, <= 2 shard groups, histories of 2-4 changing operations (+ random walks).',
    'technique': 'TLA+ spec (MetaData.tla) + TLC exhaustive + replay of TLC histories/probes on the real meta client',
    'quick_s': 150, 'thorough_s': 1200,
}
