"""C28 — permissions grant exactly what they name.  Spec: Authz.tla (Matches / Allowed transcribed from authz.go, contract
GrantAllowed / MustGrant) + AuthzPerm.tla (input-shaped: Init enumerates every case, `exp` carries the specified answer).
TLC checks the statement's "only if", its two named corollaries and the converse on the unambiguous grant forms on every
case; every case is then replayed on influxdb.Permission.Matches, influxdb.PermissionAllowed and PermissionSet.Allowed
under several concretisations of the abstract org/resource ids."""
import os
import re
import vlib


def _cfg(ctx, name, types):
    """The cfg file of spec/ with the Types constant taken from the code's AllResourceTypes."""
    with open(os.path.join(ctx.spec_dir, name)) as f:
        txt = f.read()
    lit = '{' + ','.join('"%s"' % t for t in types) + '}'
    txt, n = re.subn(r'(?m)^(\s*Types\s*=\s*).*$', lambda m: m.group(1) + lit, txt)
    if n != 1:
        raise vlib.Inconclusive(f'cannot substitute Types in {name}')
    return txt + '\n'


def run(ctx):
    tier = ctx.tier
    binary = ctx.go_build('authz')
    # the resource-type domain is the code's own list
    res, _ = ctx.replay(binary, [{'mode': 'types'}], procs=1, timeout=120)
    if not res[0].get('ok'):
        raise vlib.Inconclusive('driver could not report resource types: ' + str(res[0].get('msg')))
    types = res[0]['extra']['types']
    if res[0]['extra']['instance'] not in types or len(types) < 2:
        raise vlib.Inconclusive('unexpected resource type list ' + str(types))
    ctx.extra_cov['resource_types'] = len(types)

    nschemes = 5
    if tier == 'quick':
        first = ctx.seed % nschemes
        schemes = sorted({first, (first + 1 + (ctx.seed // nschemes) % (nschemes - 1)) % nschemes})
    else:
        schemes = list(range(nschemes))

    total_cases = 0
    all_true = all_false = 0
    for part, cfgname in (('pair', f'AuthzPerm.Pair_{tier}.cfg'), ('set', f'AuthzPerm.Set_{tier}.cfg')):
        # 1. TLC: contract invariants on every case; the dump is the complete case table
        r = ctx.tlc_must_pass('AuthzPerm', _cfg(ctx, cfgname, types), timeout=1800, dump=True, tag='perm-' + part)
        cases = []
        for st in ctx.dump_states(r):
            cases.append({'mode': 'perm', 'ps': st['ps'], 'req': st['req'], 'exp': st['exp']})
            if st['exp']['allowed']:
                all_true += 1
            else:
                all_false += 1
        if len(cases) != r.distinct:
            raise vlib.Inconclusive(f'dump has {len(cases)} states, TLC reported {r.distinct}')
        total_cases += len(cases)
        # 2. replay every case
        res, lines = ctx.replay(binary, cases, args={'schemes': ','.join(map(str, schemes))}, timeout=1800)
        ctx.absorb(res, lines)
        ctx.extra_cov[f'{part}_cases'] = len(cases)
    # vacuity guard: both answers occur
    if all_true == 0 or all_false == 0:
        raise vlib.Inconclusive(f'vacuous case table: granted={all_true} refused={all_false}')
    ctx.exhaustive = True
    ctx.extra_cov['cases_granted'] = all_true
    ctx.extra_cov['cases_refused'] = all_false
    ctx.extra_cov['id_schemes_replayed'] = schemes
    ctx.rule = ('pair table: every (permission, request) over 2 actions x every resource type of influxdb.AllResourceTypes x '
                'org in {nil,o1,o2(,o3)} x id in {nil,i1,i2(,i3)} on both sides; set table: every permission list of length 0..2 '
                'over a reduced type set x every request. Each case is replayed under the listed id concretisations (random distinct, '
                'org==id numerically, crossed, one bit apart, extremes). non-trivial = some permission of the list has the '
                'request\'s action, i.e. type/org/id decide the answer')
    ctx.assumptions += [
        'the statement is an "only if": GrantAllowed is checked as a necessary condition on every case; the converse is checked only '
        'for instance-wide, type-wide, org-scoped-without-id and id-named permissions (a permission carrying both org and id is '
        'unspecified for same-org/different-id requests; the code refuses those)',
        '"organization-scoped permission" = org set, id not set; a permission naming a resource id grants that id whatever org the '
        'request carries (resource ids are globally unique in the product, so such a request does not arise for stored resources)',
    ]


META = {
    'level': 'model_checking',
    'text': 'Permission.Matches is transcribed branch by branch into TLA+; TLC evaluates the statement\'s necessary condition, '
            'read-never-implies-write, org-scoped-never-crosses-orgs, type-never-crosses and the converse on the unambiguous forms on '
            'every case of the exhaustive table, and every case (expected answer from the spec) is replayed on the real '
            'Permission.Matches / PermissionAllowed / PermissionSet.Allowed.',
    'design_ref': '5.17',
    'note': 'Trusted: TLC, the 12-line transcription of matchesV1 being compared (any transcription error shows up as a replay '
            'mismatch), the id concretisation tables in the driver.',
    'technique': 'TLA+ spec (Authz.tla, AuthzPerm.tla) + TLC exhaustive enumeration + replay of every case on the real code',
    'quick_s': 90, 'thorough_s': 400,
}
