"""Shared helpers of the checks bound to spec/TSMEngine.tla (C01, C03; C02/C38/C39 will extend): turning a TLC state
dump into replayable behaviours, building cases for harness/cmd/engine, and the common evidence text.

How behaviours are generated.  The checking configs use `VIEW View` (everything except `hist`), so TLC's breadth-first
search keeps exactly one full state -- and therefore one history `hist` -- per distinct abstract engine state; `-dump`
writes them all.  The histories form a tree (every state was first generated from a dumped state whose history is the
prefix), so replaying the maximal histories (the leaves) drives the real engine through *every* distinct abstract state
of the configuration and reads everything back after every step.  The quick tier replays a seeded sample of long
histories, the thorough tier every leaf up to its time budget."""
import json
import zlib
import os
import re
import sys
import time

ROOT = os.environ.get('VERIF_ROOT', os.path.dirname(os.path.dirname(os.path.abspath(__file__))))
sys.path.insert(0, os.path.join(ROOT, 'lib'))
import tlaval  # noqa: E402
import vlib  # noqa: E402

ALL_ACTIONS = ['Write', 'SnapBegin', 'SnapWrite', 'SnapReplace', 'SnapClear', 'SnapWALRemove',
               'CompactStart', 'CompactMerge', 'CompactReplace', 'Reopen']
DELETE_ACTIONS = ['DeleteCall', 'DeleteTombstone', 'DeleteCache', 'DeleteWAL', 'DeleteAck']
DELETE_COMPACT_ACTIONS = ['DeleteProceed', 'CompactAbort']

_NPOS = re.compile(r'\bn \|-> [1-9]')
_ACT = re.compile(r'a \|-> "(\w+)"')
_CFG_CONST = re.compile(r'^\s*(\w+)\s*=\s*(.+?)\s*$')


def cfg_constants(cfgname):
    """constants of a cfg file in spec/ (for nkeys / ntimes of the cases and for the evidence text)"""
    out = {}
    with open(os.path.join(ROOT, 'spec', cfgname)) as f:
        for ln in f:
            m = _CFG_CONST.match(ln)
            if m:
                out[m.group(1)] = m.group(2)
    return out


def set_size(s):
    s = s.strip()
    if s.startswith('{'):
        return len([x for x in s.strip('{}').split(',') if x.strip()])
    m = re.match(r'(\d+)\.\.(\d+)', s)
    return int(m.group(2)) - int(m.group(1)) + 1


def iter_hist_texts(dump_path):
    """yield the text of the `hist` conjunct of every state of a TLC dump, without parsing anything else"""
    cur = None
    with open(dump_path, 'r') as f:
        for line in f:
            if line.startswith('/\\ '):
                if cur is not None:
                    yield ''.join(cur)
                    cur = None
                if line.startswith('/\\ hist = '):
                    cur = [line[len('/\\ hist = '):]]
            elif line.startswith('State ') or not line.strip():
                if cur is not None:
                    yield ''.join(cur)
                    cur = None
            elif cur is not None:
                cur.append(line)
    if cur is not None:
        yield ''.join(cur)


def parse_hist(text):
    return tlaval.plain(tlaval.parse_value(text))


def histories(ctx, dump_path, *, want, budget_s, exact_leaves):
    """Return (behaviours, stats). behaviours: list of hist (list of step dicts).
    exact_leaves=False (quick): one cheap pass; a seeded sample of `want` states among the longest histories is parsed;
    histories that are a prefix of another sampled one are dropped.
    exact_leaves=True (thorough): every history is parsed (until budget_s is used up), the exact set of maximal histories
    is computed and, if larger than `want`, sampled by seed."""
    t0 = time.time()
    texts = []
    lens = []
    shapes = []
    last_actions = {}
    for t in iter_hist_texts(dump_path):
        texts.append(t)
        acts = _ACT.findall(t)
        lens.append(len(acts))
        shapes.append(zlib.crc32(repr(tuple(acts)).encode()))
        if acts:
            last_actions[acts[-1]] = last_actions.get(acts[-1], 0) + 1
    n = len(texts)
    if n == 0:
        raise vlib.Inconclusive('no states in dump ' + dump_path)
    # number of distinct abstract states first reached by each action (vacuity guard of the generation run)
    stats = {'states_in_dump': n, 'max_history_len': max(lens), 'states_first_reached_by_action': last_actions}
    if not exact_leaves:
        # candidates: long histories (at least 60% of the maximum length), pre-sampled by seed. A history may end in the
        # middle of a snapshot / compaction / delete: the driver's epilogue judges it after the jobs ran to their end.
        thr = max(2, int(0.6 * max(lens)))
        idx = [i for i in range(n) if lens[i] >= thr]
        # pre-sample (parsing is the expensive part): round-robin over the distinct schedule shapes (sequence of action
        # names), so that rare interleavings are not drowned by the many argument variations of common ones
        # ... after first taking up to 60 histories of every class of "a step had an effect" flags (cheap text tests), so that
        # the rare histories in which e.g. a partially tombstoned file is compacted are parsed at all
        def flags(t):
            lg = t.find('logged |-> TRUE')
            return (('ptomb |-> TRUE' in t), lg >= 0, ('blocked |-> TRUE' in t), bool(_NPOS.search(t)),
                    lg >= 0 and t.find('"Reopen"', lg) >= 0)
        classes = {}
        for i in idx:
            classes.setdefault(flags(texts[i]), []).append(i)
        first = []
        for cl in sorted(classes):
            first += vlib.sample_list(ctx.rng, classes[cl], 60)
        stats['effect_classes'] = len(classes)
        firstset = set(first)
        groups = {}
        for i in idx:
            if i not in firstset:
                groups.setdefault(shapes[i], []).append(i)
        glist = list(groups.values())
        ctx.rng.shuffle(glist)
        for g in glist:
            ctx.rng.shuffle(g)
        chosen = list(first)
        cap = max(want * 2, 3000)
        depth = 0
        while len(chosen) < cap and any(len(g) > depth for g in glist):
            for g in glist:
                if len(g) > depth and len(chosen) < cap:
                    chosen.append(g[depth])
            depth += 1
        stats['schedule_shapes'] = len(glist)
        hs = [parse_hist(texts[i]) for i in chosen]
        keys = [json.dumps(h, separators=(',', ':'), sort_keys=True) for h in hs]
        prefixes = set()
        for h in hs:
            for k in range(1, len(h)):
                prefixes.add(json.dumps(h[:k], separators=(',', ':'), sort_keys=True))
        out = [h for h, k in zip(hs, keys) if k not in prefixes]
        out, nfeat = select_covering(ctx.rng, out, want)
        stats.update({'candidates': len(idx), 'parsed': len(hs), 'selected': len(out), 'features_covered': nfeat,
                      'exact_leaves': False})
        return out, stats
    # thorough: parse everything within the budget (longest first, so that what is cut off are short prefixes)
    order = sorted(range(n), key=lambda i: -lens[i])
    hs = []
    seen_prefix = set()
    parsed = 0
    for i in order:
        if time.time() - t0 > budget_s:
            break
        h = parse_hist(texts[i])
        texts[i] = None
        parsed += 1
        k = json.dumps(h, separators=(',', ':'), sort_keys=True)
        if len(h) > 1:
            seen_prefix.add(hash(json.dumps(h[:-1], separators=(',', ':'), sort_keys=True)))
        hs.append(k)        # keep the compact JSON only: hundreds of thousands of parsed histories would not fit comfortably
    leaves = [json.loads(k) for k in hs if hash(k) not in seen_prefix]
    hs = None
    stats.update({'parsed': parsed, 'leaves': len(leaves), 'exact_leaves': parsed == n})
    out, nfeat = select_covering(ctx.rng, leaves, want)
    stats['selected'] = len(out)
    stats['features_covered'] = nfeat
    return out, stats


_STRUCT = ('SnapBegin', 'SnapWrite', 'SnapReplace', 'SnapClear', 'SnapWALRemove', 'CompactStart', 'CompactMerge', 'CompactReplace',
           'Reopen')


def features(h):
    """Schedule features of a history, used to pick a sample that covers every feature that occurs at all:
    ordered pairs of actions; per overwrite of a (key, time): which structural steps lie between the two writes; per delete:
    how much of its series it removes (none / part / all), whether it had to wait for a compaction, and which structural
    steps precede, overlap and follow it."""
    fs = set()
    names = [st['a'] for st in h]
    first = {}
    for i, a in enumerate(names):
        first.setdefault(a, i)
    last = {a: i for i, a in enumerate(names)}
    for a in first:
        for b in last:
            if first[a] < last[b]:
                fs.add(('ord', a, b))
    lastw = {}
    for i, st in enumerate(h):
        for p in st.get('pts') or []:
            k = (p[0], p[1])
            if k in lastw:
                fs.add(('ow', tuple(sorted({names[x] for x in range(lastw[k] + 1, i) if names[x] in _STRUCT}))))
            lastw[k] = i
        # steps that did something (the spec's records say how much): which structural steps follow them
        a = st['a']
        if (a in ('DeleteTombstone', 'DeleteCache') and st.get('n', 0) > 0) or (a == 'DeleteWAL' and st.get('logged')) \
                or (a == 'CompactMerge' and st.get('ptomb')):
            fs.add(('effect', a, tuple(sorted({names[x] for x in range(i + 1, len(h)) if names[x] in _STRUCT}))))
        if st['a'] == 'DeleteCall' and i > 0:
            before = h[i - 1]['exp']['m'][st['k'] - 1]
            hit = [p for p in before if st['lo'] <= p[0] <= st['hi']]
            shape = 'none' if not hit else ('all' if len(hit) == len(before) else 'part')
            ack = next((j for j in range(i, len(h)) if names[j] == 'DeleteAck'), len(h))
            pre = tuple(sorted({names[x] for x in range(0, i) if names[x] in _STRUCT}))
            mid = tuple(sorted({names[x] for x in range(i, ack) if names[x] in _STRUCT}))
            post = tuple(sorted({names[x] for x in range(ack, len(h)) if names[x] in _STRUCT}))
            fs.add(('del', shape, bool(st.get('blocked')), mid))
            fs.add(('del-pre', shape, pre))
            fs.add(('del-post', shape, post))
    return fs


def select_covering(rng, hs, want, mult=3):
    """greedy multi-cover: every feature that occurs at all gets (up to) `mult` histories exhibiting it, best gain first;
    then a seeded random fill up to `want`"""
    if len(hs) <= want:
        allf = set()
        for h in hs:
            allf |= features(h)
        return list(hs), len(allf)
    ids = {}
    feats = []
    for h in hs:
        feats.append(frozenset(ids.setdefault(f, len(ids)) for f in features(h)))
    order = list(range(len(hs)))
    rng.shuffle(order)
    need = [mult] * len(ids)
    open_feats = set(range(len(ids)))
    picked = []
    pickedset = set()
    while len(picked) < want and open_feats:
        best, gain = None, 0
        for i in order:
            if i in pickedset:
                continue
            g = len(feats[i] & open_feats)
            if g > gain:
                best, gain = i, g
        if best is None:
            break
        picked.append(best)
        pickedset.add(best)
        for f in feats[best]:
            if need[f] > 0:
                need[f] -= 1
                if need[f] == 0:
                    open_feats.discard(f)
    rest = [i for i in order if i not in pickedset]
    picked += rest[:max(0, want - len(picked))]
    return [hs[i] for i in sorted(picked)], len(ids)


def require_actions(stats, actions):
    missing = [a for a in actions if not stats['states_first_reached_by_action'].get(a)]
    if missing:
        raise vlib.Inconclusive(f'vacuity guard: no dumped state was reached by actions {missing}')


def replay_one(ctx, prop, mc_cfg):
    """./check <id> --replay <path>: re-run exactly the stored case on the current tree (plus the quick model-checking run,
    so that the evidence file written by this run is complete)."""
    with open(ctx.replay_path) as f:
        data = json.load(f)
    case = data['case']
    ctx.seed = int(data.get('seed', ctx.seed))
    ctx.tlc_must_pass('TSMEngine', mc_cfg, timeout=600)
    binary = ctx.go_build('engine')
    res, lines = ctx.replay(binary, [case], procs=1, par=1, timeout=600)
    ctx.absorb(res, lines)
    ctx.rule = 'replay of one stored case: ' + os.path.basename(ctx.replay_path)
    ctx.assumptions += ASSUMPTIONS


_OPEN = {'SnapBegin': 'snap', 'CompactStart': 'comp', 'DeleteCall': 'del', 'CacheWrite': 'write'}
_CLOSE = {'SnapWALRemove': 'snap', 'CompactReplace': 'comp', 'CompactAbort': 'comp', 'DeleteAck': 'del', 'WriteAck': 'write'}


def quiescent_end(h):
    """no snapshot / compaction / delete / write job is in flight after the last step of history h"""
    open_jobs = set()
    for st in h:
        a = st['a']
        if a in _OPEN:
            open_jobs.add(_OPEN[a])
        elif a in _CLOSE:
            open_jobs.discard(_CLOSE[a])
    return not open_jobs


def make_cases(prop, behaviours, nkeys, ntimes, concs):
    cases = []
    for i, h in enumerate(behaviours):
        if not h:
            continue   # the initial state's empty history is not a behaviour
        for c in concs(i):
            cases.append({'prop': prop, 'nkeys': nkeys, 'ntimes': ntimes, 'conc': c, 'steps': h})
    return cases


def trace_to_case(prop, trace, nkeys, ntimes, conc=0):
    """a TLC counterexample (list of (action, state)) -> case: the last state's hist is the behaviour"""
    if not trace:
        return None
    last = tlaval.plain(trace[-1][1])
    return {'prop': prop, 'nkeys': nkeys, 'ntimes': ntimes, 'conc': conc, 'steps': last['hist']}


def feature_counts(results):
    out = {}
    for r in results:
        for f in ((r.get('extra') or {}).get('features') or []):
            out[f] = out.get(f, 0) + 1
    return out


ASSUMPTIONS = [
    'writes, snapshots, compactions, deletes and reopen succeed (no I/O errors, no cache-full rejections); a crash is C02',
    'at most one compaction and one range delete in flight; one snapshot at a time is the engine\'s own rule',
    'no write touches the points of a range delete that is still in flight (that race belongs to C39)',
    'one TSM file per snapshot/compaction output (small data); compaction groups are contiguous runs of files chosen by the '
    'behaviour (the planner is C05), executed by the engine\'s own compactionStrategy with kind/level/points-per-block by seed',
    'the background compaction loop runs with planning switched off (quietPlanner) so that only the behaviour starts compactions',
]
