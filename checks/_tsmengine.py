"""Shared helpers of the checks bound to spec/TSMEngine.tla (C01, C03; C02/C38/C39 will extend): turning a TLC state
dump into replayable behaviours, building cases for harness/cmd/engine, and the common evidence text.

How behaviours are generated.  The checking configs use `VIEW View` (everything except `hist`), so TLC's breadth-first
search keeps exactly one full state -- and therefore one history `hist` -- per distinct abstract engine state; `-dump`
writes them all.  The histories form a tree (every state was first generated from a dumped state whose history is the
prefix), so replaying the maximal histories (the leaves) drives the real engine through *every* distinct abstract state
of the configuration and reads everything back after every step.  The quick tier replays a seeded sample of long
histories, the thorough tier every leaf up to its time budget."""
import json
import os
import re
import sys
import time

ROOT = os.environ.get('VERIF_ROOT', os.path.dirname(os.path.dirname(os.path.abspath(__file__))))
sys.path.insert(0, os.path.join(ROOT, 'lib'))
import tlaval  # noqa: E402
import vlib  # noqa: E402

ALL_ACTIONS = ['Write', 'SnapBegin', 'SnapWrite', 'SnapReplace', 'SnapClear', 'SnapWALRemove',
               'CompactStart', 'CompactMerge', 'CompactReplace', 'Reopen']
DELETE_ACTIONS = ['DeleteCall', 'DeleteTombstone', 'DeleteCache', 'DeleteWAL', 'DeleteAck']
DELETE_COMPACT_ACTIONS = ['DeleteProceed', 'CompactAbort']

_ACT = re.compile(r'a \|-> "(\w+)"')
_CFG_CONST = re.compile(r'^\s*(\w+)\s*=\s*(.+?)\s*$')


def cfg_constants(cfgname):
    """constants of a cfg file in spec/ (for nkeys / ntimes of the cases and for the evidence text)"""
    out = {}
    with open(os.path.join(ROOT, 'spec', cfgname)) as f:
        for ln in f:
            m = _CFG_CONST.match(ln)
            if m:
                out[m.group(1)] = m.group(2)
    return out


def set_size(s):
    s = s.strip()
    if s.startswith('{'):
        return len([x for x in s.strip('{}').split(',') if x.strip()])
    m = re.match(r'(\d+)\.\.(\d+)', s)
    return int(m.group(2)) - int(m.group(1)) + 1


def iter_hist_texts(dump_path):
    """yield the text of the `hist` conjunct of every state of a TLC dump, without parsing anything else"""
    cur = None
    with open(dump_path, 'r') as f:
        for line in f:
            if line.startswith('/\\ '):
                if cur is not None:
                    yield ''.join(cur)
                    cur = None
                if line.startswith('/\\ hist = '):
                    cur = [line[len('/\\ hist = '):]]
            elif line.startswith('State ') or not line.strip():
                if cur is not None:
                    yield ''.join(cur)
                    cur = None
            elif cur is not None:
                cur.append(line)
    if cur is not None:
        yield ''.join(cur)


def parse_hist(text):
    return tlaval.plain(tlaval.parse_value(text))


def histories(ctx, dump_path, *, want, budget_s, exact_leaves):
    """Return (behaviours, stats). behaviours: list of hist (list of step dicts).
    exact_leaves=False (quick): one cheap pass; a seeded sample of `want` states among the longest histories is parsed;
    histories that are a prefix of another sampled one are dropped.
    exact_leaves=True (thorough): every history is parsed (until budget_s is used up), the exact set of maximal histories
    is computed and, if larger than `want`, sampled by seed."""
    t0 = time.time()
    texts = []
    lens = []
    last_actions = {}
    for t in iter_hist_texts(dump_path):
        texts.append(t)
        acts = _ACT.findall(t)
        lens.append(len(acts))
        if acts:
            last_actions[acts[-1]] = last_actions.get(acts[-1], 0) + 1
    n = len(texts)
    if n == 0:
        raise vlib.Inconclusive('no states in dump ' + dump_path)
    # number of distinct abstract states first reached by each action (vacuity guard of the generation run)
    stats = {'states_in_dump': n, 'max_history_len': max(lens), 'states_first_reached_by_action': last_actions}
    if not exact_leaves:
        # candidates: the longest histories (at least 60% of the maximum length), sampled by seed
        thr = max(2, int(0.6 * max(lens)))
        idx = [i for i in range(n) if lens[i] >= thr]
        chosen = vlib.sample_list(ctx.rng, idx, want * 2)
        hs = [parse_hist(texts[i]) for i in chosen]
        keys = [json.dumps(h, separators=(',', ':'), sort_keys=True) for h in hs]
        prefixes = set()
        for h in hs:
            for k in range(1, len(h)):
                prefixes.add(json.dumps(h[:k], separators=(',', ':'), sort_keys=True))
        out = [h for h, k in zip(hs, keys) if k not in prefixes]
        out = vlib.sample_list(ctx.rng, out, want)
        stats.update({'candidates': len(idx), 'selected': len(out), 'exact_leaves': False})
        return out, stats
    # thorough: parse everything within the budget (longest first, so that what is cut off are short prefixes)
    order = sorted(range(n), key=lambda i: -lens[i])
    hs = []
    seen_prefix = set()
    parsed = 0
    for i in order:
        if time.time() - t0 > budget_s:
            break
        h = parse_hist(texts[i])
        parsed += 1
        k = json.dumps(h, separators=(',', ':'), sort_keys=True)
        if len(h) > 1:
            seen_prefix.add(json.dumps(h[:-1], separators=(',', ':'), sort_keys=True))
        hs.append((k, h))
    leaves = [h for k, h in hs if k not in seen_prefix]
    stats.update({'parsed': parsed, 'leaves': len(leaves), 'exact_leaves': parsed == n})
    out = vlib.sample_list(ctx.rng, leaves, want)
    stats['selected'] = len(out)
    return out, stats


def require_actions(stats, actions):
    missing = [a for a in actions if not stats['states_first_reached_by_action'].get(a)]
    if missing:
        raise vlib.Inconclusive(f'vacuity guard: no dumped state was reached by actions {missing}')


def replay_one(ctx, prop, mc_cfg):
    """./check <id> --replay <path>: re-run exactly the stored case on the current tree (plus the quick model-checking run,
    so that the evidence file written by this run is complete)."""
    with open(ctx.replay_path) as f:
        data = json.load(f)
    case = data['case']
    ctx.seed = int(data.get('seed', ctx.seed))
    ctx.tlc_must_pass('TSMEngine', mc_cfg, timeout=600)
    binary = ctx.go_build('engine')
    res, lines = ctx.replay(binary, [case], procs=1, par=1, timeout=600)
    ctx.absorb(res, lines)
    ctx.rule = 'replay of one stored case: ' + os.path.basename(ctx.replay_path)
    ctx.assumptions += ASSUMPTIONS


def make_cases(prop, behaviours, nkeys, ntimes, concs):
    cases = []
    for i, h in enumerate(behaviours):
        for c in concs(i):
            cases.append({'prop': prop, 'nkeys': nkeys, 'ntimes': ntimes, 'conc': c, 'steps': h})
    return cases


def trace_to_case(prop, trace, nkeys, ntimes, conc=0):
    """a TLC counterexample (list of (action, state)) -> case: the last state's hist is the behaviour"""
    if not trace:
        return None
    last = tlaval.plain(trace[-1][1])
    return {'prop': prop, 'nkeys': nkeys, 'ntimes': ntimes, 'conc': conc, 'steps': last['hist']}


def feature_counts(results):
    out = {}
    for r in results:
        for f in ((r.get('extra') or {}).get('features') or []):
            out[f] = out.get(f, 0) + 1
    return out


ASSUMPTIONS = [
    'writes, snapshots, compactions, deletes and reopen succeed (no I/O errors, no cache-full rejections); a crash is C02',
    'at most one compaction and one range delete in flight; one snapshot at a time is the engine\'s own rule',
    'no write touches the points of a range delete that is still in flight (that race belongs to C39)',
    'one TSM file per snapshot/compaction output (small data); compaction groups are contiguous runs of files chosen by the '
    'behaviour (the planner is C05), executed by the engine\'s own compactionStrategy with kind/level/points-per-block by seed',
    'the background compaction loop runs with planning switched off (quietPlanner) so that only the behaviour starts compactions',
]
