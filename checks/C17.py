"""C17 — bucket deletes remove exactly the matching data across shards, reconcile metadata, never block non-conflicting writes.
Spec: BucketDelete.tla (2 shards, per-shard epoch tracker, guard = time-range overlap, delete in six steps per shard).
TLC: exhaustive model checking of the protocol (2 concurrent writers, all interleavings incl. those that need no park point)
and of the delete alone over every dataset/predicate/range of the small domain; generation of behaviours by seeded
simulation (sequential family: random dataset x predicate x range x shard order; concurrent family: the delete interleaved
with planned writers, restricted to schedules executable with the store-level park points).
Binding: every generated behaviour is replayed on a real tsdb.Store with two shards through the park points of build tag
`verif` (tsdb/store.go): the schedule TLC chose is executed, reads/listings are compared with the spec after every step,
blocked writers must stay blocked, non-conflicting writers must finish while the delete is parked (10 s deadline)."""
import glob
import json
import os
import re
import threading

import tlaval
import vlib

ACTIONS_MC = ['ChooseInit', 'ChoosePred', 'ChooseRange', 'WriteBegin', 'WriteEnd', 'DeleteStart', 'DeleteInstall', 'DeleteWaited',
              'DeleteShard', 'DeleteReconcileIndex', 'DeleteDone', 'DeleteEnd', 'Terminated']
ACTIONS_SEQ = ['ChooseInit', 'ChoosePred', 'ChooseRange', 'DeleteStart', 'DeleteInstall', 'DeleteWaited', 'DeleteShard',
               'DeleteReconcileIndex', 'DeleteDone', 'DeleteEnd', 'Terminated']


def last_state(path):
    """Last state of a TLC -simulate behaviour file (only that one is parsed: it carries hist, init0, dpred, drange)."""
    with open(path) as f:
        text = f.read()
    idx = [m.start() for m in re.finditer(r'^STATE_\d+ ==', text, re.M)]
    if not idx:
        return None
    blk = text[idx[-1]:]
    body = blk.split('\n', 1)[1]
    body = re.split(r'\n={4,}', body)[0]
    return tlaval.plain(tlaval.parse_state_body(body))


def make_case(st, family, cid, series, conc=0):
    init = []
    for k, times in st['init0'].items():
        sh, s = json.loads(k)
        init.append({'sh': sh, 's': s, 'times': times})
    init.sort(key=lambda c: (c['sh'], c['s']))
    steps = st['hist']
    if not steps or steps[-1]['a'] != 'dend' and not any(x['a'] == 'dend' for x in steps):
        return None
    return {'cid': cid, 'family': family, 'series': series, 'init': init, 'pred': st['dpred'], 'lo': st['drange'][0],
            'hi': st['drange'][1], 'steps': steps, 'conc': conc}


def complete(st):
    """Behaviour ran to completion: delete returned, every started writer ended."""
    h = st['hist']
    if not any(x['a'] == 'dend' for x in h):
        return False
    return sum(1 for x in h if x['a'] == 'wbegin') == sum(1 for x in h if x['a'] == 'wend')


def gen(ctx, cfg, family, series, num, workers, depth, timeout):
    """Seeded simulation: TLC writes `num` behaviours per worker."""
    r = ctx.tlc('BucketDelete', cfg, workers=workers, timeout=timeout, simulate={'num': num}, depth=depth, tag='gen-' + family)
    if r.timed_out or not r.ok:
        raise vlib.Inconclusive(f'TLC simulation {cfg} failed (violated={r.violated}):\n' + r.stdout[-2000:])
    cases, seen, total = [], set(), 0
    for f in sorted(glob.glob(os.path.join(r.sim_dir, 'b_*'))):
        total += 1
        try:
            st = last_state(f)
        except Exception as e:  # noqa
            raise vlib.Inconclusive(f'cannot parse simulate file {f}: {e}')
        if st is None or not complete(st):
            continue
        c = make_case(st, family, len(cases), series)
        if c is None:
            continue
        key = json.dumps([c['init'], c['pred'], c['lo'], c['hi'], [(x['a'], x.get('w'), x.get('sh'), x.get('s'), x.get('T')) for x in c['steps']]])
        if key in seen:
            continue
        seen.add(key)
        cases.append(c)
    return r, cases, total


def replay_one(ctx):
    """./check C17 --replay <file>: re-run exactly one stored case against the current tree."""
    with open(ctx.replay_path) as f:
        rec = json.load(f)
    ctx.seed = int(rec.get('seed', ctx.seed))
    binary = ctx.go_build('bdel')
    res, lines = ctx.replay(binary, [rec['case']], procs=1, par=1, timeout=300, case_timeout='150s')
    ctx.absorb(res, lines)
    ctx.states = ctx.transitions = 1        # no TLC run in replay mode; the stored behaviour came from TLC
    ctx.rule = 'replay of one stored TLC behaviour'


def run(ctx):
    if getattr(ctx, 'replay_path', None):
        return replay_one(ctx)
    tier = ctx.tier
    quick = tier == 'quick'
    dev = bool(os.environ.get('VERIF_C17_DEV'))      # development aid: skip the (tree-independent) model-checking runs
    box, errs = {}, {}

    # the TLC runs and the harness build are independent. They are organised in lanes (a lane runs its tasks one after the
    # other, 4 TLC workers each): >= 12 CPUs one lane per task, >= 8 CPUs two lanes (model checking | build + generation),
    # otherwise a single lane with at most NCPU workers -- never more than NCPU busy workers.
    nlanes = 99 if vlib.NCPU >= 12 else (2 if vlib.NCPU >= 8 else 1)
    wk = 4 if nlanes > 1 else max(1, min(4, vlib.NCPU))
    tasks = []

    def bg(name, fn):
        tasks.append((name, fn))

    def run_lanes():
        lanes = {}
        for name, fn in tasks:
            key = name if nlanes > 2 else (0 if (name in ('mc', 'mcseq') and nlanes == 2) else 1)
            lanes.setdefault(key, []).append((name, fn))

        def lane(items):
            for name, fn in items:
                try:
                    box[name] = fn()
                except BaseException as e:  # noqa
                    errs[name] = e
        ths = [threading.Thread(target=lane, args=(items,)) for items in lanes.values()]
        for t in ths:
            t.start()
        for t in ths:
            t.join()

    series = [1, 2, 3] if quick else [1, 2, 3, 4]
    # behaviours per family (TLC writes `num` per simulation worker)
    nseq = (240 if quick else 2000) // wk
    nconc = (240 if quick else 2400) // wk
    if dev:
        nseq = nconc = int(os.environ.get('VERIF_C17_DEV_N', '120')) // wk
    bg('bin', lambda: ctx.go_build('bdel'))
    if not dev:
        # 1. model checking (VIEW hides hist; history not even recorded): protocol with two concurrent writers, every interleaving
        bg('mc', lambda: ctx.tlc_must_pass('BucketDelete', f'BucketDelete.MC_{tier}.cfg', timeout=1700,
                                                      coverage=True, workers=wk, tag='mc'))
        # 2. model checking of the delete alone over every dataset / predicate / range of a core of the generation domain
        bg('mcseq', lambda: ctx.tlc_must_pass('BucketDelete', f'BucketDelete.MCseq_{tier}.cfg', timeout=1700,
                                                         coverage=True, workers=wk, tag='mcseq'))
    # 3. behaviours for replay (seeded simulation; the state counts of these runs are reported, their purpose is generation)
    bg('gseq', lambda: gen(ctx, f'BucketDelete.Gen_seq_{tier}.cfg', 'seq', series, nseq, wk, 26 if quick else 30, 1700))
    bg('gconc', lambda: gen(ctx, f'BucketDelete.Gen_conc_{tier}.cfg', 'conc', [1, 2, 3], nconc, wk, 40 if quick else 46, 1700))
    # batches that straddle the delete range (one timestamp before, one after, none inside: not a conflict)
    nstr = (120 if quick else 800) // wk
    if dev:
        nstr = max(1, nconc // 2)
    bg('gstr', lambda: gen(ctx, f'BucketDelete.Gen_straddle_{tier}.cfg', 'straddle', [1, 2, 3], nstr, wk, 40 if quick else 46, 1700))
    run_lanes()
    for name in ('mc', 'mcseq', 'gseq', 'gconc', 'gstr', 'bin'):
        if name in errs:
            raise errs[name]
    if not dev:
        ctx.check_coverage(box['mc'], ACTIONS_MC)
        ctx.check_coverage(box['mcseq'], ACTIONS_SEQ)
    gs, seq_cases, seq_total = box['gseq']
    gc, conc_cases, conc_total = box['gconc']
    if not seq_cases or not conc_cases:
        raise vlib.Inconclusive('simulation produced no complete behaviour')
    gt, str_cases, str_total = box['gstr']
    if not str_cases:
        raise vlib.Inconclusive('simulation produced no complete straddling behaviour')
    conc_cases = conc_cases + str_cases
    cases = seq_cases + conc_cases
    if not quick:
        # thorough: every behaviour under a second concretisation
        cases = cases + [dict(c, conc=1) for c in cases]
    binary = box['bin']
    res, lines = ctx.replay(binary, cases, procs=min(vlib.NCPU, 12), par=1, timeout=1700, case_timeout='150s')
    ctx.absorb(res, lines)
    ctx.exhaustive = False
    blocked = sum((x.get('extra') or {}).get('blocked_writers', 0) for x in res if x.get('ok'))
    during = sum((x.get('extra') or {}).get('writers_during_guard', 0) for x in res if x.get('ok'))
    ctx.extra_cov['sequential_behaviours'] = {'simulated': seq_total, 'distinct_complete': len(seq_cases)}
    ctx.extra_cov['concurrent_behaviours'] = {'simulated': conc_total, 'distinct_complete': len(conc_cases) - len(str_cases)}
    ctx.extra_cov['replayed_cases'] = len(cases)
    ctx.extra_cov['conflicting_writers_checked_blocked_until_guard_release'] = blocked
    ctx.extra_cov['nonconflicting_writers_completed_while_delete_parked'] = during
    # vacuity guard on the generated schedules (spec side, independent of the tree under test)
    sb = sd = ss = se = 0
    for c in conc_cases:
        for x in c['steps']:
            if x['a'] == 'wbegin':
                straddles = (not x['conflicts']) and min(x['T']) < c['lo'] and max(x['T']) > c['hi']
                if x['w'] in x['exp']['blocked']:
                    sb += 1
                elif x['exp']['dstep'][x['sh'] - 1] in ('installed', 'guarded'):
                    sd += 1
                    ss += 1 if straddles else 0
                elif straddles and x['exp']['dstep'][x['sh'] - 1] in ('none', 'entered'):
                    se += 1       # in flight before the guard is installed on its shard
    ctx.extra_cov['straddling_behaviours'] = {'simulated': str_total, 'distinct_complete': len(str_cases)}
    ctx.extra_cov['schedules_with_straddling_writer_during_guard'] = ss
    ctx.extra_cov['schedules_with_straddling_writer_before_guard'] = se
    if ss == 0 or se == 0:
        raise vlib.Inconclusive(f'vacuity guard: generated schedules contain {ss} straddling writers during a guard and {se} before it')
    ctx.extra_cov['schedules_with_blocked_writer'] = sb
    ctx.extra_cov['schedules_with_nonconflicting_writer_during_guard'] = sd
    if sb == 0 or sd == 0:
        raise vlib.Inconclusive(f'vacuity guard: generated schedules contain {sb} blocked and {sd} non-blocked writers during a guard')
    ctx.rule = ('one replayed case = one TLC behaviour (initial dataset over 2 shards x series x {1,2,3}, predicate, range, complete '
                'schedule of the delete steps and the writers) under a seed-dependent concretisation (names with spaces/commas/equals/'
                'unicode, timestamps at Min/Max/0/now, int/float, cache/TSM/mixed layout, shard ids, predicate via protobuf or '
                'predicate.Parse, with/without the measurement expression); non-trivial = the delete removed some but not all points, or a '
                'writer began while a guard was installed (blocked or not); distinct by (family, dataset, predicate, range, schedule)')
    ctx.assumptions += [
        '"conflict" = a timestamp of the write lies inside the delete\'s [min,max] (the bucket-delete guard carries no series names)',
        'a write concurrent with the delete is ordered by StartWrite vs WaitDelete on its shard: earlier => its in-range points of '
        'matching series are removed, later => it waits for the guard and its points survive',
        'replayed schedules are those executable with the store-level park points: no writer step between data removal and guard '
        'release of a shard, a writer released by the guard ends before anything else (TLC checks all interleavings on the model)',
        'index reconciliation is atomic in the model; the window inside tsm1 deleteSeriesRange between Cache.Keys() and '
        'DropSeries (code comment "inherently racy") has no park point and is not exercised',
        'never blocked = completes within 10 s while the delete is parked; a miss must reproduce 3 times, else inconclusive',
        'points written by two writers released by the same guard may hold either value',
        'a write is a batch with a set of timestamps; a batch straddling the delete range (points before and after, none inside) is '
        'non-conflicting and is generated by a dedicated family (range [2,2], batches {1,3} and {2})',
    ]


META = {
    'level': 'model_checking',
    'text': 'TLC checks the epoch/guard protocol with two concurrent writers over every interleaving (exact data, exact metadata, '
            'non-conflicting writes never blocked, delete waits for earlier writers, no deadlock) and the delete alone over every '
            'dataset/predicate/range of the small domain; seeded TLC behaviours (sequential and concurrent) are executed step by step '
            'on a real two-shard tsdb.Store via park points, with reads, series/measurement/tag-value listings and blocking compared '
            'to the specification after every step.',
    'design_ref': '5.10',
    'note': 'Trusted: TLC, the driver\'s projection of cursors/listings onto the abstract domain, the park points (4 in '
            'DeleteSeriesWithPredicate, 1 in WriteToShard; no-ops without build tag verif). F12 (stale tag values) is attached as a '
            'known finding by predicate; series/measurement listings are exact.',
    'technique': 'TLA+ spec (BucketDelete.tla) + TLC exhaustive + seeded simulation + replay of TLC schedules on the real store',
    'quick_s': 170, 'thorough_s': 1700,
}
