"""C23 - InfluxQL transformation functions follow their definitions.  Spec: InfluxQLFn.tla.

Contract layer = the documented definition of every function as a closed form over exact rationals (`exp`);
implementation layer = the code's streaming machines (reducers + reduce/stream iterators).  TLC checks
machine = definition for every (function, parameter, GROUP BY time width, series) of the bounded domain, then every such
state is replayed on the real code: influxql.ParseStatement -> query.Select over an in-memory ShardMapper (the
select_test.go construction), rows (time AND value) compared with `exp`; the streaming reducers are also driven
directly through query.New*Reducer."""
import json
import os
import re
import vlib

ACTIONS = ['FeedStream', 'FeedIntegral', 'FinishStream', 'FeedReduce', 'FlushReduce', 'FinishReduce']
_assign = re.compile(r'^/\\ (\w+) = (.*)$')


def iter_cases(dump_path):
    """Fast reader of the Gen dump: only fn/par/w/series/exp are needed and every value is made of integers,
    strings and tuples, so `<<` `>>` map to JSON brackets."""
    want = ('fn', 'par', 'w', 'desc', 'series', 'exp')
    cur, name, buf = {}, None, []

    def flush():
        if name in want:
            cur[name] = json.loads(' '.join(buf).replace('<<', '[').replace('>>', ']'))

    with open(dump_path) as f:
        for line in f:
            if line.startswith('State '):
                flush()
                if len(cur) == len(want):
                    yield cur
                cur, name, buf = {}, None, []
                continue
            m = _assign.match(line)
            if m:
                flush()
                name, buf = m.group(1), [m.group(2).strip()]
            elif name is not None and line.strip():
                buf.append(line.strip())
    flush()
    if len(cur) == len(want):
        yield cur


def run(ctx):
    tier = ctx.tier
    # 1. machine = definition on the whole bounded domain
    r = ctx.tlc_must_pass('InfluxQLFn', f'InfluxQLFn.MC_{tier}.cfg', timeout=1500, coverage=True, workers=min(8, vlib.NCPU))
    ctx.check_coverage(r, ACTIONS)
    # 2. sensitivity of the invariant on the model: the scan of mode() as it is at the pinned commit (ModeQuirk = TRUE)
    #    must be rejected by MachineFollowsDefinition (a model-only counterexample is a lead: the replay below decides)
    lead = ctx.tlc('InfluxQLFn', 'InfluxQLFn.ModeLead.cfg', timeout=300, workers=min(4, vlib.NCPU), count=False)
    if lead.timed_out or lead.violated != 'MachineFollowsDefinition':
        raise vlib.Inconclusive('vacuity guard: the pinned-commit mode() scan is not rejected on the model: '
                                + lead.stdout[-800:])
    ctx.extra_cov['model_lead_mode_scan_at_pinned_commit'] = 'rejected by MachineFollowsDefinition (InfluxQLFn.ModeLead.cfg)'
    # 3. every case state -> replay on the real code
    g = ctx.tlc_must_pass('InfluxQLFn', f'InfluxQLFn.Gen_{tier}.cfg', timeout=1500, dump=True, count=False, workers=min(4, vlib.NCPU))
    cases_path = ctx.tmp('cases.ndjson')
    total = 0
    per_fn = {}
    budget = 400000 if tier == 'quick' else None
    keep_p = 1.0
    if budget and g.distinct > budget:
        keep_p = budget / g.distinct
    with open(cases_path, 'w') as out:
        for c in iter_cases(g.dump_path):
            total += 1
            if keep_p < 1.0 and ctx.rng.random() > keep_p:
                continue
            per_fn[c['fn']] = per_fn.get(c['fn'], 0) + 1
            out.write(json.dumps(c, separators=(',', ':')) + '\n')
    if total != g.distinct:
        raise vlib.Inconclusive(f'dump reader found {total} states, TLC reported {g.distinct}')
    replayed = sum(per_fn.values())
    ctx.exhaustive = (replayed == total)
    binary = ctx.go_build('iqlfn')
    nconc = 3 if tier == 'quick' else 4
    res, lines = ctx.replay(binary, cases_path, args={'nconc': nconc}, procs=min(vlib.NCPU, 14), timeout=1500)
    ctx.absorb(res, lines)
    ctx.extra_cov['case_states_total'] = total
    ctx.extra_cov['case_states_replayed'] = replayed
    ctx.extra_cov['cases_per_function'] = per_fn
    ctx.extra_cov['concretisations_per_case'] = nconc
    ctx.rule = ('every state of InfluxQLFn Gen (function x parameter x GROUP BY time width x series of <= MaxLen points '
                'over timestamps 0..MaxT with the cfg\'s values: quick -1..1 with <= 4 points, thorough -2..2 with <= 5 points) replayed under `concretisations_per_case` concretisations '
                '(integer and float field always; value scale 2^k, time unit, base time, with/without WHERE time); '
                'non-trivial = series with >= 2 points, distinct by (function, parameter, width, series)')
    ctx.assumptions += [
        'numeric policy: spec values are exact rationals; expected float = float64(num)/float64(den) (one division) times '
        'a power-of-two value scale; comparison is bit-exact except (a) stddev: square of the result against the exact '
        'sample variance, relative tolerance 1e-12, (b) integral under GROUP BY time when the boundary interpolation has a '
        'non-dyadic slope or the time unit is not a power of two (several roundings in linearFloat): same tolerance 1e-12',
        'series have strictly increasing timestamps (one stored series); <= 5 points, so sort.Sort is a stable insertion '
        'sort and ties between equal values are ordered by time (percentile, top, bottom definitions use (value, time) order)',
        'integral under GROUP BY time: the curve is cut at the end of the window of each point; across wholly empty windows the '
        'area from that cut to the next point is credited to the next point\'s window and the empty windows give no row '
        '(behaviour of the unchanged code; not documented)',
        'a row for a window whose part of the integral curve is a single instant is optional (value 0 if present); so is the row '
        'of the last window when the last point lies exactly on its start after skipped windows (Close() discards it)',
        'top/bottom are also run under ORDER BY time DESC and their reducers are fed directly in ascending, descending and '
        'interleaved order: the selection must not depend on the arrival order',
        'the row time of integral() without GROUP BY time is compared only for ranges starting at the epoch (the float reducer '
        'reports the epoch, the integer reducer the lower bound of the range; the documentation shows the epoch)',
        'GROUP BY time queries use fill(none): only windows that contain points produce rows (fill is C22)',
        'stddev of a single point is null; percentile with rank round-half-up(n*N/100) = 0 yields no row',
    ]


META = {
    'level': 'model_checking',
    'text': 'Each of derivative, non_negative_derivative, difference, non_negative_difference, moving_average, '
            'cumulative_sum, elapsed, integral, percentile, median, mode, spread, stddev, distinct, top and bottom is '
            'specified twice in TLA+ (documented closed form over exact rationals; the code\'s streaming reducer/iterator '
            'machine) and TLC proves them equal on every series of the bounded domain; every (function, parameters, window, '
            'series) state is then executed on the real planner/executor through query.Select and the rows - timestamps '
            'and values - are compared with the definition, for integer and float fields.',
    'design_ref': '5.14',
    'note': 'Trusted: TLC, the rational->float comparison in the driver (one division, power-of-two scaling), the in-memory '
            'ShardMapper serving the series. One declared tolerance (1e-12 relative) for stddev and for windowed-integral '
            'interpolation with non-dyadic slopes; everything else is bit-exact.',
    'technique': 'TLA+ spec (InfluxQLFn.tla) + TLC exhaustive + replay of every case state on the real influxql/query code',
    'quick_s': 150, 'thorough_s': 1500,
}
