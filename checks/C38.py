"""C38 -- shard backup / restore / export preserve data.
Spec: TSMEngineBackup.tla = TSMEngine.tla + logical clock and per-file mtimes (TSM file, tombstone file), Backup(since) after
a forced snapshot, Restore of the archive into an empty shard, Export(lo, hi).  Contract: RestoreOK (reads of the restored
shard = reads of the source), BackupComplete (archive contains every file changed after `since`), ExportOK (points of the
export = model restricted to [lo, hi]).
TLC: (a) the intended design (tombstone files restored, point-exact export) satisfies the contract in every quiescent state
of every history; (b) lead configurations with one quirk of the code each (restore skips every archive entry that is not a
.tsm file; export keeps whole blocks) violate RestoreOK / ExportOK on the model; each counterexample is replayed on the real
engine and must reproduce there with its known-finding predicate (otherwise the spec is wrong about the code: exit 2).
Binding: replay of TLC histories (writes, snapshots, compactions, range deletes in all interleavings of TSMEngine, ending
with a Backup or Export) on a real tsdb.Shard: Shard.Backup / Shard.Restore (into a fresh shard with its own series file and
index) / Shard.Export with real tar streams; file mtimes are set with os.Chtimes from the logical clock.  Compared: the set
of archive entries against the files changed after `since`; every key x sub-range x direction of the restored shard against
the model; the decoded points of the exported TSM files (tombstones applied) against the model restricted to the range."""
import importlib.util
import json
import os

import vlib


def _common():
    p = os.path.join(os.path.dirname(os.path.abspath(__file__)), '_tsmengine.py')
    spec = importlib.util.spec_from_file_location('_tsmengine', p)
    mod = importlib.util.module_from_spec(spec)
    spec.loader.exec_module(mod)
    return mod


MC_ACTIONS = ['BWrite', 'BSnapBegin', 'BSnapWrite', 'BSnapReplace', 'BSnapClear', 'BSnapWALRemove', 'BCompactStart', 'BCompactMerge',
              'BCompactReplace', 'BCompactAbort', 'BDeleteCall', 'BDeleteProceed', 'BDeleteTombstone', 'BDeleteCache', 'BDeleteWAL',
              'BDeleteAck', 'Backup', 'Export']
GEN_ACTIONS = ['Write', 'SnapBegin', 'SnapReplace', 'SnapWALRemove', 'CompactStart', 'CompactMerge', 'CompactReplace',
               'DeleteCall', 'DeleteTombstone', 'DeleteAck', 'Backup', 'Export']
# lead configurations: (cfg, invariant TLC must find violated, known-finding pattern the real engine must show)
LEADS = [('TSMEngineBackup.Lead_restore.cfg', 'RestoreOK', 'restore_drops_tombstones'),
         ('TSMEngineBackup.Lead_blocks.cfg', 'ExportOK', 'export_keeps_whole_blocks')]


def run(ctx):
    T = _common()
    tier = ctx.tier
    quick = tier == 'quick'
    sc = float(os.environ.get('VERIF_TIMEOUT_SCALE', '1') or '1')   # development on an overloaded machine only
    mc_cfg = f'TSMEngineBackup.MC_{tier}.cfg'
    gen_cfg = f'TSMEngineBackup.Gen_{tier}.cfg'
    if getattr(ctx, 'replay_path', None):
        with open(ctx.replay_path) as f:
            data = json.load(f)
        ctx.seed = int(data.get('seed', ctx.seed))
        ctx.tlc_must_pass('TSMEngineBackup', 'TSMEngineBackup.MC_quick.cfg', timeout=sc * 600)
        binary = ctx.go_build('engine')
        res, lines = ctx.replay(binary, [data['case']], procs=1, par=1, timeout=sc * 600)
        ctx.absorb(res, lines)
        ctx.rule = 'replay of one stored case: ' + os.path.basename(ctx.replay_path)
        return
    binary = ctx.go_build('engine')
    # 1. the intended design satisfies the contract
    r = ctx.tlc_must_pass('TSMEngineBackup', mc_cfg, timeout=sc * (400 if quick else 1500), coverage=True)
    ctx.check_coverage(r, MC_ACTIONS)
    # 2. leads: the code's quirks break the contract on the model; they count only if the real engine shows them too
    leads = {}
    for cfg, inv, pattern in LEADS:
        lead = ctx.tlc('TSMEngineBackup', cfg, timeout=sc * 300)
        if lead.timed_out:
            raise vlib.Inconclusive(f'TLC timed out on {cfg}')
        if lead.violated != inv or not lead.trace:
            raise vlib.Inconclusive(f'{cfg}: TLC no longer finds {inv} violated (violated={lead.violated}); the spec and the known '
                                    f'finding {pattern} are out of step\n' + lead.stdout[-1500:])
        lconsts = T.cfg_constants(cfg)
        lcase = T.trace_to_case('C38', lead.trace, T.set_size(lconsts['Keys']), T.set_size(lconsts['Times']))
        lcases = [dict(lcase, conc=c) for c in range(4)]
        lres, llines = ctx.replay(binary, lcases, procs=2, par=1, timeout=sc * 120)
        ctx.absorb(lres, llines, sample=1)
        reproduced = sum(1 for x in lres if not x.get('ok') and pattern in (x.get('patterns') or []))
        leads[pattern] = {'tlc_trace_len': len(lead.trace), 'replayed_concretisations': len(lcases), 'reproduced_on_real_engine': reproduced}
        # (a lead replay that fails in some OTHER way is a divergence of its own: it was absorbed above and is reported)
        if reproduced == 0 and all(x.get('ok') for x in lres):
            raise vlib.Inconclusive(f'the TLC counterexample of {inv} ({cfg}) does not reproduce on the real engine with pattern {pattern}: '
                                    'the model is wrong about the code (or the code was repaired: update TSMEngineBackup.tla and its cfgs)')
    ctx.extra_cov['leads'] = leads
    # 3. behaviours: one history per distinct abstract state, each ending with a Backup / Export
    g = ctx.tlc_must_pass('TSMEngineBackup', gen_cfg, timeout=sc * (400 if quick else 1200), dump=True)
    want = 60 if quick else 1200
    hs, stats = T.histories(ctx, g.dump_path, want=want * 3, budget_s=20 if quick else 420, exact_leaves=not quick)
    T.require_actions(stats, GEN_ACTIONS)
    hs = [h for h in hs if h and h[-1]['a'] in ('Backup', 'Export')]
    # a covering sample with all three kinds of final step: full backup (restore), incremental backup, export
    kinds = {'full': [], 'incr': [], 'export': []}
    for h in hs:
        last = h[-1]
        kinds['export' if last['a'] == 'Export' else ('full' if last['since'] == 0 else 'incr')].append(h)
    chosen = []
    share = {'full': 0.4, 'incr': 0.2, 'export': 0.4}
    for k, lst in kinds.items():
        sel, _ = T.select_covering(ctx.rng, lst, max(1, int(want * share[k])))
        chosen += sel
    if not all(kinds.values()):
        raise vlib.Inconclusive('vacuity guard: histories ending in ' + str([k for k, v in kinds.items() if not v]) + ' are missing')
    consts = T.cfg_constants(gen_cfg)
    nkeys, ntimes = T.set_size(consts['Keys']), T.set_size(consts['Times'])
    nconc = 1 if quick else 2
    cases = T.make_cases('C38', chosen, nkeys, ntimes, lambda i: [i * nconc + j for j in range(nconc)])
    res, lines = ctx.replay(binary, cases, par=1, timeout=sc * (600 if quick else 1700), case_timeout='120s')
    ctx.absorb(res, lines)
    feats = T.feature_counts(res)
    ctx.exhaustive = False
    ctx.extra_cov['generation'] = stats
    ctx.extra_cov['final_steps'] = {k: len(v) for k, v in kinds.items()}
    ctx.extra_cov['cases_replayed'] = len(cases)
    ctx.extra_cov['features_exercised'] = feats
    ctx.extra_cov['mc_constants'] = T.cfg_constants(mc_cfg)
    ctx.extra_cov['gen_constants'] = consts
    ctx.rule = ('TLC histories of TSMEngineBackup (one per distinct abstract state, each ending with Backup(since) or Export(lo,hi) in a '
                'quiescent state; seeded covering sample over full backups / incremental backups / exports) replayed on a real '
                'tsdb.Shard; reads are compared with the model after every step; Backup: archive entries vs files changed after since, '
                'since = 0: Shard.Restore into an empty shard and every key x sub-range x direction compared with the model; Export: '
                'decoded points of the archive compared with the model restricted to the range. non-trivial = the history contains an '
                'acknowledged delete or a compaction commit before the final step.')
    ctx.assumptions += T.ASSUMPTIONS + [
        'backup / export are taken in quiescent states (no snapshot, compaction, delete or write in flight); concurrency is C39',
        'restore target is an empty shard (fresh series file, index and directories); pkg/tar error paths are not modelled',
        'file modification times are set by the driver from the logical clock (os.Chtimes); the file of the forced snapshot inside '
        'Backup carries the wall-clock time',
        'small data: one block per key and file, so "whole block" = all points of a key in a file',
    ]


META = {
    'level': 'model_checking',
    'text': 'TLC checks RestoreOK / BackupComplete / ExportOK on TSMEngineBackup.tla (TSMEngine + mtimes, Backup(since) after a forced '
            'snapshot, Restore into an empty shard, Export(lo,hi)) for the intended design, and finds the contract violated when the '
            'code\'s quirks are switched on (leads, reproduced on the real engine); TLC histories ending in a backup / export are '
            'replayed on a real tsdb.Shard with real tar streams and a real restored shard, and archive contents, restored reads and '
            'exported points are compared with the spec.',
    'design_ref': '5.1',
    'note': 'Trusted: TLC, the driver\'s tar / TSM decoding (tsm1.NewTSMReader on the extracted files), os.Chtimes as the clock. '
            'Small scope: 2 keys x 2 timestamps, <= 2-3 points, 1 snapshot (+ the forced one), 1 compaction, 1 delete, 1 backup/export.',
    'technique': 'TLA+ spec (TSMEngineBackup.tla extends TSMEngine.tla) + TLC exhaustive + replay on real Shard.Backup/Restore/Export',
    'quick_s': 150, 'thorough_s': 1500,
}
