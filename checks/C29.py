"""C29 — authorization wrappers never leak or modify unauthorized resources.  Spec: AuthzSvc.tla (wrappers + stores;
contract = readable sets, authz of every mutating call incl. "granted permissions are already held", denied => unchanged),
built on Authz.tla's Matches (C28).  TLC: model invariants (no escalation, read-only / inactive callers never mutate, org
isolation, denied changes nothing); every history of every single-permission caller to the bound (a failed call ends a
history: it changed nothing) and simulated longer histories of seeded multi-permission callers are replayed on the real
authorizer.* and tenant.Authed* / authorization.Authed* wrappers around real services on an in-memory KV store."""
import os
import re
import vlib

ACTIONS = ['CreateBucket', 'UpdateBucket', 'DeleteBucket', 'CreateOrg', 'UpdateOrg', 'DeleteOrg',
           'CreateUser', 'UpdateUser', 'DeleteUser', 'CreateAuth', 'UpdateAuth', 'DeleteAuth']
TYPES = ['authorizations', 'buckets', 'orgs', 'users', 'tasks', 'instance']


def code(act, typ, org, rid):
    return (0 if act == 'read' else 1) * 54 + TYPES.index(typ) * 9 + org * 3 + rid


def perm_codes():
    return [c for c in range(108) if (c % 54) // 9 != TYPES.index('instance') or c % 9 in (0, 7)]


def sample_callers(rng, n):
    """Seeded multi-permission callers (2..3 permissions). Half of them are built around the permissions a token creation
    needs (write authorizations + write users) so that CreateAuthorization / VerifyPermissions are reached non-vacuously."""
    dom = perm_codes()
    out = set()
    guard = 0
    while len(out) < n and guard < 10000:
        guard += 1
        if rng.random() < 0.5:
            wa = code('write', 'authorizations', rng.choice([0, 1, 2]), 0)
            wu = code('write', 'users', 0, rng.choice([0, 1, 2]))
            s = {wa, wu, rng.choice(dom)}
        else:
            s = set(rng.sample(dom, rng.choice([2, 3])))
        if len(s) >= 2:
            out.add(tuple(sorted(s)))
    return sorted(out)


def with_callers(ctx, name, callers):
    with open(os.path.join(ctx.spec_dir, name)) as f:
        txt = f.read()
    lit = '{' + ', '.join('{' + ','.join(map(str, s)) + '}' for s in callers) + '}'
    txt, n = re.subn(r'(?m)^(\s*Callers\s*=\s*).*$', lambda m: m.group(1) + lit, txt)
    if n != 1:
        raise vlib.Inconclusive(f'cannot substitute Callers in {name}')
    return txt + '\n'


def action_coverage(ctx, r, module):
    """TLC attributes disjuncts of Next that sit under a state-dependent quantifier to `Next (line col line col)`: map those
    back to the action named on that source line, and add the directly named ones."""
    with open(os.path.join(ctx.spec_dir, module + '.tla')) as f:
        src = f.read().splitlines()
    cov = dict(r.coverage)
    for m in re.finditer(r'<Next line \d+, col \d+ to line \d+, col \d+ of module %s \((\d+) \d+ \d+ \d+\)>: (\d+):(\d+)' % module, r.stdout):
        line = src[int(m.group(1)) - 1]
        am = re.search(r':\s*(\w+)\(', line) or re.search(r'\\/\s*(\w+)\s*$', line)
        if am:
            cov[am.group(1)] = cov.get(am.group(1), 0) + int(m.group(3))
    return cov


def fn(v):
    """TLC prints a function with domain 1..n as a sequence: normalise to {id: value}."""
    if isinstance(v, list):
        return {str(i + 1): x for i, x in enumerate(v)}
    return v


def norm_steps(hist):
    steps = []
    for rec in hist:
        rec = dict(rec)
        exp = dict(rec['exp'])
        st = dict(exp['st'])
        for k in ('orgs', 'buckets', 'users', 'auths'):
            st[k] = fn(st[k])
        exp['st'] = st
        rec['exp'] = exp
        steps.append(rec)
    return steps


def mk_case(ctx, st, idx, nschemes):
    steps = norm_steps(st['hist'])
    variants = ['authorizer', 'tenant']
    # the tenant-era wrapper refuses instance-wide grants: histories in which such a grant succeeds follow only the
    # authorizer-package wrapper's store
    for s in steps:
        if s['a'] == 'CreateAuth' and s['exp']['ok'] and not s['noInst']:
            variants = ['authorizer']
    if ctx.tier == 'quick':
        schemes = [(idx + ctx.seed) % nschemes]
    else:
        schemes = list(range(nschemes))
    # the initial state (and its views) is the same for every history of one caller: the filter-combination suite is run on
    # it for the first few histories of each caller (so that every id scheme gets it), afterwards only on changed states
    key = str(st['caller'])
    n = _seen_callers.get(key, 0)
    _seen_callers[key] = n + 1
    return {'mode': 'svc', 'caller': st['caller'], 'steps': steps, 'variants': variants, 'schemes': schemes,
            'initCombos': n < 2 * nschemes}


_seen_callers = {}


def run(ctx):
    tier = ctx.tier
    _seen_callers.clear()
    maxops = 2   # bound of the exhaustive part in both tiers (thorough: more grant sets / org-user pairs / id schemes, deeper simulation)
    # 1. the design: invariants / action property on the model, every action taken (vacuity guard)
    r = ctx.tlc_must_pass('AuthzSvc', f'AuthzSvc.MC_{tier}.cfg', timeout=2400, coverage=True)
    r.coverage = action_coverage(ctx, r, 'AuthzSvc')
    ctx.check_coverage(r, ACTIONS)
    ctx.extra_cov['action_coverage'] = {a: r.coverage.get(a, 0) for a in ACTIONS}
    # 2. every history of every single-permission caller up to the bound
    g = ctx.tlc_must_pass('AuthzSvc', f'AuthzSvc.Gen_{tier}.cfg', timeout=2400, dump=True)
    cases = []
    ncallers = set()
    for st in ctx.dump_states(g):
        h = st['hist']
        if not (st['stopped'] or len(h) == maxops + 1):
            continue   # a proper prefix of a longer history; checked step by step as part of that one
        ncallers.add(str(st['caller']))
        cases.append(mk_case(ctx, st, len(cases), 3))
    if not cases:
        raise vlib.Inconclusive('no maximal histories in the dump')
    binary = ctx.go_build('authz')
    res, lines = ctx.replay(binary, cases, timeout=2400)
    ctx.absorb(res, lines)
    ctx.exhaustive = True
    ctx.extra_cov['single_permission_callers'] = len(ncallers)
    ctx.extra_cov['single_permission_histories_replayed'] = len(cases)
    # 2b. structured multi-permission callers (fixed list in the cfg), every history to the bound: {read org o} + one org-scoped
    #     or type-wide permission; token creators that hold only one element of a two-element grant; read-only and all-access
    #     tokens of an org.  These reach the paths a single permission cannot (org-restricted listings, VerifyPermissions on lists).
    fmax = 1 if tier == 'quick' else 2
    gf = ctx.tlc_must_pass('AuthzSvc', f'AuthzSvc.Fixed_{tier}.cfg', timeout=2400, dump=True)
    fcases = []
    for st in ctx.dump_states(gf):
        if not (st['stopped'] or len(st['hist']) == fmax + 1):
            continue
        fcases.append(mk_case(ctx, st, len(fcases), 3))
    if not fcases:
        raise vlib.Inconclusive('no histories for the structured callers')
    part = sum(1 for c in fcases for s in c['steps'][1:] if s['a'] == 'CreateAuth' and len(s['grant']) >= 2
               and not s['exp']['authz'])
    if part == 0:
        raise vlib.Inconclusive('no refused token request with a grant list of length >= 2')
    resf, linesf = ctx.replay(binary, fcases, timeout=2400)
    ctx.absorb(resf, linesf)
    ctx.extra_cov['structured_caller_histories_replayed'] = len(fcases)
    ctx.extra_cov['refused_token_requests_with_2_element_grants'] = part
    # 3. longer histories of seeded multi-permission callers (simulation; denied calls may occur anywhere)
    ncall, nsim, depth = (12, 1500, 6) if tier == 'quick' else (60, 5000, 7)   # nsim is per TLC worker
    callers = sample_callers(ctx.rng, ncall)
    cfg = with_callers(ctx, f'AuthzSvc.Deep_{tier}.cfg', callers)
    s = ctx.tlc('AuthzSvc', cfg, timeout=1500, simulate={'num': nsim}, depth=depth, workers=1 if tier == 'quick' else min(4, vlib.NCPU))
    if s.timed_out or not s.ok:
        raise vlib.Inconclusive('AuthzSvc simulation failed: ' + s.stdout[-1500:])
    seen = set()
    dcases = []
    for beh in ctx.sim_behaviours(s):
        last = beh[-1]
        key = str(last['caller']) + str([(x['a'], x.get('id'), x.get('org'), x.get('user'), str(x.get('grant'))) for x in last['hist']])
        if key in seen or len(last['hist']) < 2:
            continue
        seen.add(key)
        dcases.append(mk_case(ctx, last, len(dcases), 3))
    if not dcases:
        raise vlib.Inconclusive('simulation produced no behaviours')
    res2, lines2 = ctx.replay(binary, dcases, timeout=2400)
    ctx.absorb(res2, lines2)
    ctx.extra_cov['multi_permission_callers'] = len(callers)
    ctx.extra_cov['multi_permission_behaviours_generated'] = nsim
    ctx.extra_cov['multi_permission_histories_replayed'] = len(dcases)
    allc = cases + fcases + dcases
    nok = sum(1 for c in allc for st in c['steps'][1:] if st['exp']['ok'])
    nden = sum(1 for c in allc for st in c['steps'][1:] if not st['exp']['authz'])
    ngrant = sum(1 for c in allc for st in c['steps'][1:] if st['a'] == 'CreateAuth' and st['exp']['ok'])
    if nok == 0 or nden == 0 or ngrant == 0:
        raise vlib.Inconclusive(f'vacuous histories: successful calls={nok} denied calls={nden} tokens created={ngrant}')
    ctx.extra_cov['calls_expected_to_succeed'] = nok
    ctx.extra_cov['calls_expected_denied'] = nden
    ctx.extra_cov['token_creations_expected_to_succeed'] = ngrant
    ctx.rule = ('exhaustive part: every caller holding at most one permission of the domain {read,write} x {authorizations,buckets,orgs,'
                'users,tasks,instance} x org {nil,o1,o2} x id {nil,1,2} (instance-wide: 2 org/id forms), every history of Create/Update/'
                'Delete calls on buckets, orgs, users and authorizations (CreateAuthorization over the listed grant sets and org/user '
                'pairs) up to MaxOps, a failed call ends the history. Sampled part: seeded callers with 2-3 permissions, simulated '
                'histories in which denied calls may occur anywhere. After every call the store is dumped through the unwrapped '
                'services and every Find* of the wrapped services is run as the caller - by id, by name, unfiltered, and with every single field '
                'and every pair of fields of the filter structs over all known ids/names, consistent or not (only a leak is a violation '
                'there); a refused token request is sent in every rotation of its grant list and of the reverse; structured 2-13-'
                'permission callers (fixed list) to the bound; both wrapper generations; id concretisations '
                '(product generators / numerically colliding ids across types). non-trivial = history with a successful mutating call, '
                'or a caller that sees some but not all resources of a type')
    ctx.assumptions += [
        '"may read" / "may write" are the requests the product defines per resource kind (bucket: type+org+id; system bucket and org: '
        'orgs/<id>; user: users/<id>; authorization: authorizations+org+id AND users/<owner>); they are part of the contract layer',
        'a call that fails for a reason other than authorization (target or org does not exist, invalid grant) is not a denial; '
        'CreateOrganization by a caller whose own user was deleted returns an error after creating the org (non-atomic owner '
        'mapping) - modelled as the code behaves, outside the property (authz holds for that call)',
        'agreement of call outcomes / resulting stores with the implementation layer beyond the contract is reported as drift only',
    ]


META = {
    'level': 'model_checking',
    'text': 'TLC checks on the wrapper model that no token ever exceeds its creator, that read-only and inactive callers never '
            'mutate, that org-scoped callers stay inside their org and that denied calls change nothing; every history of every '
            'single-permission caller (to the bound) and simulated histories of multi-permission callers are replayed on the real '
            'authorizing wrappers over real tenant/authorization services: returned resources must lie in the specified readable '
            'sets, a call may succeed only if the specification authorizes it, and a denied call must leave the full store dump '
            'byte-identical.',
    'design_ref': '5.17',
    'note': 'Trusted: TLC, Authz.tla\'s Matches (bound to the code by C28), the driver\'s store dump/abstraction (~150 lines), '
            'the in-memory KV store.',
    'technique': 'TLA+ spec (AuthzSvc.tla over Authz.tla) + TLC exhaustive/simulation + replay of TLC histories on the real wrappers',
    'quick_s': 120, 'thorough_s': 900,
}
